//go:build verif

package vmm

// Software MMU shared by the C04 / C05 / C06 harnesses.
//
// "Physical memory" is an arena of 4 KiB host pages mapped at a FIXED host address, so that a
// frame number (= host address >> 12) is the same number in every run and the trace needs no
// translation.  The kernel's page-table code reaches memory only through
//   - ptePtrFn / nextAddrFn: virtual addresses inside the recursive window; they are resolved by
//     walking the page tables from the fake CR3 exactly like the hardware would (4 levels, present
//     bit, huge-page bit = stop), entry 511 recursion included;
//   - the page returned by mapTemporaryFn: the wrapper really maps the temporary page with the real
//     MapTemporary and returns the host page the MMU resolves tempMappingAddr to;
//   - the active root's physical address used as a pointer by PageDirectoryTable.Map/Unmap (the
//     kernel relies on the identity mapping there) which is a host address by construction;
//   - the faulting virtual page read by pageFaultHandler (C06): host pages at a second fixed
//     address which the harness fills with the bytes of the frame the page translates to.
// The MMU constants below are hardware facts and deliberately not taken from the package.

import (
	"fmt"
	"sort"
	"strings"
	"syscall"
	"unsafe"

	"github.com/ProjectSerenity/firefly/kernel"
	"github.com/ProjectSerenity/firefly/kernel/gate"
	"github.com/ProjectSerenity/firefly/kernel/kfmt"
	"github.com/ProjectSerenity/firefly/kernel/mm"
	"github.com/ProjectSerenity/firefly/kernel/multiboot"
)

const (
	vmArenaFrames = 96
	vmWinPages    = 16
	hwPhysMask    = uintptr(0x000ffffffffff000)
)

var (
	vmArenaCandidates = []uintptr{0x1000000000, 0x1800000000, 0x3000000000}
	vmWinCandidates   = []uintptr{0x2000000000, 0x2800000000, 0x3800000000}
	hwShifts          = [4]uint{39, 30, 21, 12}

	errVerifAlloc = &kernel.Error{Module: "verif", Message: "scripted allocation failure"}
	errVerifTmp   = &kernel.Error{Module: "verif", Message: "scripted temporary-mapping failure"}
)

// the package's flag constants by name, in x86-64 bit order (index = trace token of `mapflag`)
var vmNamedFlags = []PageTableEntryFlag{FlagPresent, FlagRW, FlagUserAccessible, FlagWriteThroughCaching, FlagDoNotCache,
	FlagAccessed, FlagDirty, FlagHugePage, FlagGlobal, FlagCopyOnWrite, FlagNoExecute}

type vmFault struct{ what string }

type vmachine struct {
	base    uintptr // host address of arena = physical address of frame baseFrame
	n       int
	win     uintptr // host-backed virtual pages (C06)
	cr3     uintptr
	flushes []uint64
	allocQ  []uint64
	allocs  int
	tmpFail bool

	lastEntryAddr, lastHostPtr uintptr
	tmpOutstanding             bool
	tmpHostPage                mm.Page

	pdts     [4]PageDirectoryTable
	sections []vmSection
	useMB    bool     // sections come from a real multiboot2 info block through multiboot.VisitElfSections
	mbBuf    []uint64 // the info block (kept alive here)
	mbNames  []byte
	mu       []byte // host buffer for the kernel.Memset / kernel.Memcopy tie (guard bytes around the target)
	lastDump string
	lastCode int // result code of the last op (-1: aborted)
}

type vmSection struct {
	flags uint32
	addr  uint64
	size  uint64
}

func vmMmapFixed(addr, length uintptr) bool {
	const mapFixedNoReplace = 0x100000
	r, _, e := syscall.Syscall6(syscall.SYS_MMAP, addr, length, syscall.PROT_READ|syscall.PROT_WRITE,
		syscall.MAP_PRIVATE|syscall.MAP_ANONYMOUS|mapFixedNoReplace, ^uintptr(0), 0)
	if e != 0 {
		return false
	}
	if r != addr {
		syscall.Syscall(syscall.SYS_MUNMAP, r, length, 0)
		return false
	}
	return true
}

var vmSingleton *vmachine

func newVMachine() *vmachine {
	if vmSingleton != nil {
		return vmSingleton
	}
	m := &vmachine{n: vmArenaFrames}
	for _, a := range vmArenaCandidates {
		if vmMmapFixed(a, uintptr(vmArenaFrames)<<12) {
			m.base = a
			break
		}
	}
	for _, a := range vmWinCandidates {
		if vmMmapFixed(a, uintptr(vmWinPages)<<12) {
			m.win = a
			break
		}
	}
	if m.base == 0 || m.win == 0 {
		panic("verif: cannot map the physical-memory arena at a fixed address")
	}
	vmSingleton = m
	return m
}

func (m *vmachine) baseFrame() uint64 { return uint64(m.base >> 12) }

func (m *vmachine) inArena(pa uintptr, size uintptr) bool {
	return pa >= m.base && pa+size <= m.base+uintptr(m.n)<<12 && pa+size >= pa
}

func vmWord(addr uintptr) *uint64 { return (*uint64)(unsafe.Pointer(addr)) }

// phys is the hardware page walk: virtual address -> physical address.
func (m *vmachine) phys(va uintptr) (uintptr, bool) {
	table := m.cr3 & hwPhysMask
	for level := 0; level < 4; level++ {
		if !m.inArena(table, 4096) {
			return 0, false
		}
		idx := (va >> hwShifts[level]) & 511
		e := uintptr(*vmWord(table + idx*8))
		if e&1 == 0 {
			return 0, false
		}
		next := e & hwPhysMask
		if level == 3 {
			return next + va&0xfff, true
		}
		if (level == 1 || level == 2) && e&(1<<7) != 0 {
			mask := uintptr(1)<<hwShifts[level] - 1
			return (next &^ mask) + va&mask, true
		}
		table = next
	}
	return 0, false
}

func (m *vmachine) install() func() {
	origPtePtr, origNextAddr, origFlush := ptePtrFn, nextAddrFn, flushTLBEntryFn
	origActive, origSwitch := activePDTFn, switchPDTFn
	ptePtrFn = func(entryAddr uintptr) unsafe.Pointer {
		pa, ok := m.phys(entryAddr)
		if !ok || !m.inArena(pa, 8) || pa&7 != 0 {
			panic(vmFault{"pte"})
		}
		m.lastEntryAddr, m.lastHostPtr = entryAddr, pa
		return unsafe.Pointer(pa)
	}
	// Map computes the next table's virtual address from the *pointer* ptePtrFn returned (identical to
	// the entry's virtual address in the kernel); undo the host translation, then resolve like the MMU.
	nextAddrFn = func(x uintptr) uintptr {
		if x != m.lastHostPtr<<9 {
			panic(vmFault{"nextaddr"})
		}
		pa, ok := m.phys(m.lastEntryAddr << 9)
		if !ok || !m.inArena(pa, 4096) || pa&0xfff != 0 {
			panic(vmFault{"memset"})
		}
		return pa
	}
	flushTLBEntryFn = func(a uintptr) { m.flushes = append(m.flushes, uint64(a)) }
	activePDTFn = func() uintptr { return m.cr3 }
	switchPDTFn = func(a uintptr) { m.cr3 = a }
	mm.SetFrameAllocator(func() (mm.Frame, *kernel.Error) {
		if len(m.allocQ) == 0 {
			return mm.InvalidFrame, errVerifAlloc
		}
		f := m.allocQ[0]
		m.allocQ = m.allocQ[1:]
		m.allocs++
		return mm.Frame(f), nil
	})
	mapTemporaryFn = func(f mm.Frame) (mm.Page, *kernel.Error) {
		if m.tmpFail {
			return 0, errVerifTmp
		}
		p, err := MapTemporary(f)
		if err != nil {
			return p, err
		}
		pa, ok := m.phys(p.Address())
		if !ok || !m.inArena(pa, 4096) || pa&0xfff != 0 {
			panic(vmFault{"tmp"})
		}
		m.tmpOutstanding, m.tmpHostPage = true, mm.Page(pa>>12)
		return m.tmpHostPage, nil
	}
	unmapFn = func(p mm.Page) *kernel.Error {
		if m.tmpOutstanding && p == m.tmpHostPage {
			m.tmpOutstanding = false
			return Unmap(mm.PageFromAddress(tempMappingAddr))
		}
		return Unmap(p)
	}
	mapFn = Map
	translateFn = Translate
	earlyReserveRegionFn = EarlyReserveRegion
	visitElfSectionsFn = func(v multiboot.ElfSectionVisitor) {
		if m.useMB {
			multiboot.VisitElfSections(v)
			return
		}
		for _, s := range m.sections {
			v("sec", multiboot.ElfSectionFlag(s.flags), uintptr(s.addr), s.size)
		}
	}
	readCR2Fn = func() uint64 { return 0 }
	kfmt.SetOutputSink(vmDiscard{})
	return func() {
		ptePtrFn, nextAddrFn, flushTLBEntryFn = origPtePtr, origNextAddr, origFlush
		activePDTFn, switchPDTFn = origActive, origSwitch
		mapTemporaryFn, unmapFn, mapFn, translateFn = MapTemporary, Unmap, Map, Translate
		visitElfSectionsFn = multiboot.VisitElfSections
		mm.SetFrameAllocator(nil)
		earlyReserveLastUsed = tempMappingAddr
		ReservedZeroedFrame, protectReservedZeroedPage = 0, false
		kernelPDT = PageDirectoryTable{}
		kfmt.SetOutputSink(nil)
	}
}

type vmDiscard struct{}

func (vmDiscard) Write(p []byte) (int, error) { return len(p), nil }

func vmErrCode(err *kernel.Error) int {
	switch err {
	case nil:
		return 0
	case ErrInvalidMapping:
		return 1
	case errNoHugePageSupport:
		return 2
	case errAttemptToRWMapReservedFrame:
		return 3
	case errVerifAlloc:
		return 4
	case errEarlyReserveNoSpace:
		return 5
	case errVerifTmp:
		return 6
	case errUnrecoverableFault:
		return 7
	}
	return 9
}

// reset starts a new case: zero physical memory, build the boot page table (an empty root whose
// entry 511 points to itself, Present|RW, as rt0 leaves it) and reset the package globals.
func (m *vmachine) reset(root uint64) {
	kernel.Memset(m.base, 0, uintptr(m.n)<<12)
	kernel.Memset(m.win, 0, uintptr(vmWinPages)<<12)
	*vmWord(uintptr(root)<<12 + 511*8) = root<<12 | 3
	m.cr3 = uintptr(root) << 12
	m.flushes, m.allocQ, m.allocs, m.tmpFail = nil, nil, 0, false
	m.tmpOutstanding = false
	m.pdts = [4]PageDirectoryTable{}
	m.sections = nil
	m.useMB = false
	m.lastDump = ""
	earlyReserveLastUsed = tempMappingAddr
	ReservedZeroedFrame, protectReservedZeroedPage = 0, false
	kernelPDT = PageDirectoryTable{}
}

func vmHash(p uintptr) uint64 {
	h := uint64(14695981039346656037)
	for i := uintptr(0); i < 512; i++ {
		h = (h ^ *vmWord(p + i*8)) * 1099511628211
	}
	return h
}

// dump prints every non-zero word of physical memory (sparse; frames with many non-zero words as
// count + hash).
func (m *vmachine) dump() string {
	var sb strings.Builder
	nf := 0
	for f := 0; f < m.n; f++ {
		p := m.base + uintptr(f)<<12
		k := 0
		for i := uintptr(0); i < 512; i++ {
			if *vmWord(p + i*8) != 0 {
				k++
			}
		}
		if k == 0 {
			continue
		}
		nf++
		if k > 300 {
			fmt.Fprintf(&sb, " %d 999 %d %d", m.baseFrame()+uint64(f), k, vmHash(p))
			continue
		}
		fmt.Fprintf(&sb, " %d %d", m.baseFrame()+uint64(f), k)
		for i := uintptr(0); i < 512; i++ {
			if w := *vmWord(p + i*8); w != 0 {
				fmt.Fprintf(&sb, " %d %d", i, w)
			}
		}
	}
	return fmt.Sprintf("%d%s", nf, sb.String())
}

// state = everything observable after an op.
func (m *vmachine) state() string {
	var sb strings.Builder
	fmt.Fprintf(&sb, "F %d", len(m.flushes))
	for _, a := range m.flushes {
		fmt.Fprintf(&sb, " %d", a)
	}
	z := 0
	if protectReservedZeroedPage {
		z = 1
	}
	fmt.Fprintf(&sb, " A %d C %d U %d Z %d %d K %d", m.allocs, uint64(m.cr3), uint64(earlyReserveLastUsed),
		uint64(ReservedZeroedFrame), z, uint64(kernelPDT.pdtFrame))
	d := m.dump()
	if d == m.lastDump {
		sb.WriteString(" M same")
	} else {
		sb.WriteString(" M " + d)
		m.lastDump = d
	}
	return sb.String()
}

// run executes one kernel call; a simulated MMU fault or a Go panic becomes the observation.
// Returns the observation and whether the case can continue.
func (m *vmachine) run(f func() (int, uint64)) (string, bool) {
	m.flushes = m.flushes[:0]
	m.allocs = 0
	code, val, aborted := 0, uint64(0), false
	func() {
		defer func() {
			if r := recover(); r != nil {
				aborted = true
				switch e := r.(type) {
				case vmFault:
					code = 100
				case *kernel.Error:
					code = 200 + vmErrCode(e)
				default:
					code = 299
				}
			}
		}()
		code, val = f()
	}()
	if aborted {
		return fmt.Sprintf("%d", code), false
	}
	return fmt.Sprintf("%d %d %s", code, val, m.state()), true
}

// fillPattern writes the data pattern `seed` into a frame (word i = seed*(2i+1)+i).
func (m *vmachine) fillPattern(frame, seed uint64) {
	p := uintptr(frame) << 12
	for i := uint64(0); i < 512; i++ {
		*vmWord(p + uintptr(i)*8) = seed*(2*i+1) + i
	}
}

// syncWin emulates the MMU for reads of a host-backed virtual page: its bytes become those of the
// frame the page currently translates to.
func (m *vmachine) syncWin(va uintptr) {
	page := va &^ 0xfff
	if page < m.win || page >= m.win+uintptr(vmWinPages)<<12 {
		return
	}
	if pa, ok := m.phys(page); ok && m.inArena(pa, 4096) {
		kernel.Memcopy(pa, page, 4096)
	} else {
		kernel.Memset(page, 0, 4096)
	}
}

func (m *vmachine) inWin(va uintptr) bool {
	return va >= m.win && va < m.win+uintptr(vmWinPages)<<12
}

// leafEntry returns the leaf entry of va if all upper levels are present (hardware view).
func (m *vmachine) leafEntry(va uintptr) (uint64, bool) {
	table := m.cr3 & hwPhysMask
	for level := 0; level < 4; level++ {
		if !m.inArena(table, 4096) {
			return 0, false
		}
		e := *vmWord(table + ((va>>hwShifts[level])&511)*8)
		if level == 3 {
			return e, true
		}
		if e&1 == 0 || (level > 0 && e&(1<<7) != 0) {
			return 0, false
		}
		table = uintptr(e) & hwPhysMask
	}
	return 0, false
}

// tableOf returns the frame number of the level-`level` table on va's path (0 = root), if present.
func (m *vmachine) tableOf(va uintptr, level int) (uint64, bool) {
	table := m.cr3 & hwPhysMask
	for l := 0; l < level; l++ {
		if !m.inArena(table, 4096) {
			return 0, false
		}
		e := *vmWord(table + ((va>>hwShifts[l])&511)*8)
		if e&1 == 0 {
			return 0, false
		}
		table = uintptr(e) & hwPhysMask
	}
	return uint64(table >> 12), m.inArena(table, 4096)
}

const vmMuN = 20736

func vmMuPattern(seed, i uint64) byte { return byte(i*7 + seed*13 + i/256) }

// memUtil runs kernel.Memset / kernel.Memcopy on a host buffer filled with a pattern and reports
// hash of the whole buffer (guards included), number of bytes that differ from the pattern, first and
// last differing index (vmMuN when none).
func (m *vmachine) memUtil(name string, op []uint64) string {
	if m.mu == nil {
		m.mu = make([]byte, vmMuN)
	}
	seed := op[0]
	for i := range m.mu {
		m.mu[i] = vmMuPattern(seed, uint64(i))
	}
	base := uintptr(unsafe.Pointer(&m.mu[0]))
	switch name {
	case "memset":
		off, val, size := op[1], op[2], op[3]
		if off+size > vmMuN-64 || off < 64 {
			panic("verif: memset op outside the guarded buffer")
		}
		kernel.Memset(base+uintptr(off), byte(val), uintptr(size))
	case "memcopy":
		src, dst, size := op[1], op[2], op[3]
		if src+size > vmMuN-64 || dst+size > vmMuN-64 || src < 64 || dst < 64 {
			panic("verif: memcopy op outside the guarded buffer")
		}
		kernel.Memcopy(base+uintptr(src), base+uintptr(dst), uintptr(size))
	}
	h := uint64(14695981039346656037)
	nd, first, last := 0, uint64(vmMuN), uint64(vmMuN)
	for i, b := range m.mu {
		h = (h ^ uint64(b)) * 1099511628211
		if b != vmMuPattern(seed, uint64(i)) {
			nd++
			if first == vmMuN {
				first = uint64(i)
			}
			last = uint64(i)
		}
	}
	return fmt.Sprintf("%d %d %d %d", h, nd, first, last)
}

// buildMultiboot writes a multiboot2 info block whose only tag is the ELF-sections tag (type 9) laid out
// as kernel/multiboot reads it: numSections u16 @0, sectionSize u32 @4, strtabSectionIndex u32 @8,
// then 64-byte elfSection64 entries; the last entry is the string table (size 0, address = the names).
// The raw 64-bit flags word of section i is op[3i] (high bits are dropped by the visitor's conversion).
func (m *vmachine) buildMultiboot(secs []vmSection, op []uint64) {
	n := len(secs)
	m.mbNames = m.mbNames[:0]
	nameOff := make([]uint32, n)
	m.mbNames = append(m.mbNames, 0)
	for i := range secs {
		nameOff[i] = uint32(len(m.mbNames))
		m.mbNames = append(m.mbNames, []byte(fmt.Sprintf(".sec%d", i))...)
		m.mbNames = append(m.mbNames, 0)
	}
	tagSize := 8 + 12 + 64*(n+1)
	total := 8 + (tagSize+7)&^7 + 8
	m.mbBuf = make([]uint64, (total+7)/8+1)
	base := uintptr(unsafe.Pointer(&m.mbBuf[0]))
	put32 := func(off int, v uint32) { *(*uint32)(unsafe.Pointer(base + uintptr(off))) = v }
	put64 := func(off int, v uint64) { *(*uint64)(unsafe.Pointer(base + uintptr(off))) = v }
	put32(0, uint32(total))
	put32(8, 9)
	put32(12, uint32(tagSize))
	*(*uint16)(unsafe.Pointer(base + 16)) = uint16(n + 1)
	put32(20, 64)
	put32(24, uint32(n))
	for i := 0; i <= n; i++ {
		e := 28 + 64*i
		if i == n { // string table
			put32(e, 0)
			put32(e+4, 3)
			put64(e+16, uint64(uintptr(unsafe.Pointer(&m.mbNames[0]))))
			put64(e+32, 0)
			continue
		}
		put32(e, nameOff[i])
		put32(e+4, 1)
		put64(e+8, op[3*i])
		put64(e+16, secs[i].addr)
		put64(e+24, 0x1000*uint64(i))
		put64(e+32, secs[i].size)
	}
	end := 8 + (tagSize+7)&^7
	put32(end, 0)
	put32(end+4, 8)
	multiboot.SetInfoPtr(base)
}

// exec runs one op (tokens as printed in the trace) against the real code.
func (m *vmachine) exec(op []uint64, name string) (string, bool) {
	switch name {
	case "memset", "memcopy":
		return m.memUtil(name, op), true
	case "init":
		m.reset(op[2])
		return m.run(func() (int, uint64) { return 0, 0 })
	case "alloc":
		// frames handed to the allocator are dirty (pattern = frame number): a new level that is
		// not cleared shows
		m.allocQ = append([]uint64(nil), op...)
		for _, f := range op {
			if m.inArena(uintptr(f)<<12, 4096) {
				m.fillPattern(f, f)
			}
		}
		return m.run(func() (int, uint64) { return 0, 0 })
	case "map":
		return m.run(func() (int, uint64) {
			return vmErrCode(Map(mm.Page(op[0]), mm.Frame(op[1]), PageTableEntryFlag(op[2]))), 0
		})
	case "mapflag": // Map with Present | the package's NAMED flag constant number op[2]
		return m.run(func() (int, uint64) {
			return vmErrCode(Map(mm.Page(op[0]), mm.Frame(op[1]), FlagPresent|vmNamedFlags[op[2]])), 0
		})
	case "unmap":
		return m.run(func() (int, uint64) { return vmErrCode(Unmap(mm.Page(op[0]))), 0 })
	case "xlate":
		return m.run(func() (int, uint64) {
			pa, err := Translate(uintptr(op[0]))
			return vmErrCode(err), uint64(pa)
		})
	case "maptmp":
		return m.run(func() (int, uint64) {
			p, err := MapTemporary(mm.Frame(op[0]))
			return vmErrCode(err), uint64(p)
		})
	case "pinit":
		return m.run(func() (int, uint64) {
			return vmErrCode(m.pdts[op[0]].Init(mm.Frame(op[1]))), 0
		})
	case "pmap":
		return m.run(func() (int, uint64) {
			return vmErrCode(m.pdts[op[0]].Map(mm.Page(op[1]), mm.Frame(op[2]), PageTableEntryFlag(op[3]))), 0
		})
	case "punmap":
		return m.run(func() (int, uint64) { return vmErrCode(m.pdts[op[0]].Unmap(mm.Page(op[1]))), 0 })
	case "act":
		return m.run(func() (int, uint64) { m.pdts[op[0]].Activate(); return 0, 0 })
	case "region":
		return m.run(func() (int, uint64) {
			p, err := MapRegion(mm.Frame(op[0]), uintptr(op[1]), PageTableEntryFlag(op[2]))
			return vmErrCode(err), uint64(p)
		})
	case "ident":
		return m.run(func() (int, uint64) {
			p, err := IdentityMapRegion(mm.Frame(op[0]), uintptr(op[1]), PageTableEntryFlag(op[2]))
			return vmErrCode(err), uint64(p)
		})
	// ---- C06
	case "fill":
		m.fillPattern(op[0], op[1])
		return m.run(func() (int, uint64) { return 0, 0 })
	case "poke": // harness writes one word of physical memory (sets up entry bits the API cannot)
		*vmWord(uintptr(op[0])<<12 + uintptr(op[1])*8) = op[2]
		return m.run(func() (int, uint64) { return 0, 0 })
	case "setz":
		ReservedZeroedFrame, protectReservedZeroedPage = mm.Frame(op[0]), op[1] != 0
		return m.run(func() (int, uint64) { return 0, 0 })
	case "tmpfail":
		m.tmpFail = op[0] != 0
		return m.run(func() (int, uint64) { return 0, 0 })
	case "rzf":
		return m.run(func() (int, uint64) { return vmErrCode(reserveZeroedFrame()), 0 })
	case "pf":
		readCR2Fn = func() uint64 { return op[0] }
		if e, ok := m.leafEntry(uintptr(op[0])); ok && e&1 != 0 && e&2 == 0 && e&0x200 != 0 && !m.inWin(uintptr(op[0])) {
			panic("verif: generator produced a recoverable fault outside the host-backed window")
		}
		m.syncWin(uintptr(op[0]))
		return m.run(func() (int, uint64) {
			regs := gate.Registers{Info: op[1]}
			pageFaultHandler(&regs)
			return 0, 0
		})
	case "gpf":
		readCR2Fn = func() uint64 { return op[0] }
		return m.run(func() (int, uint64) {
			regs := gate.Registers{Info: op[1]}
			generalProtectionFaultHandler(&regs)
			return 0, 0
		})
	// ---- C05
	case "secs":
		m.useMB = false
		m.sections = nil
		for i := 0; i+2 < len(op); i += 3 {
			m.sections = append(m.sections, vmSection{uint32(op[i]), op[i+1], op[i+2]})
		}
		return m.run(func() (int, uint64) { return 0, 0 })
	case "secsmb": // the same section table, encoded as the ELF-sections tag of a multiboot2 info block
		var secs []vmSection
		for i := 0; i+2 < len(op); i += 3 {
			secs = append(secs, vmSection{uint32(op[i]), op[i+1], op[i+2]})
		}
		m.buildMultiboot(secs, op)
		m.useMB = true
		return m.run(func() (int, uint64) { return 0, 0 })
	case "reserve":
		return m.run(func() (int, uint64) {
			a, err := EarlyReserveRegion(uintptr(op[0]))
			return vmErrCode(err), uint64(a)
		})
	case "setup":
		return m.run(func() (int, uint64) { return vmErrCode(setupPDTForKernel(uintptr(op[0]))), 0 })
	}
	panic("verif: unknown op " + name)
}

// do prints the op line and returns false when the case must end (fault / panic).
func (m *vmachine) do(out *verifWriter, name string, op ...uint64) bool {
	obs, cont := m.exec(op, name)
	m.lastCode = -1
	if cont {
		fmt.Sscanf(obs, "%d", &m.lastCode)
	}
	out.printf("%s", name)
	for _, x := range op {
		out.printf(" %d", x)
	}
	out.printf(" | %s\n", obs)
	return cont
}

func vmSortedKeys(s map[uint64]bool) []uint64 {
	ks := make([]uint64, 0, len(s))
	for k := range s {
		ks = append(ks, k)
	}
	sort.Slice(ks, func(i, j int) bool { return ks[i] < ks[j] })
	return ks
}
