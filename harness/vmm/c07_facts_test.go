//go:build verif

package vmm

import (
	"go/ast"
	"go/parser"
	"go/token"
	"os"
	"path/filepath"
	"sort"
	"strings"
)

// c07CursorWriters lists, from the source of package vmm in the tree under verification, every
// function that writes the reservation cursor earlyReserveLastUsed (assignment, op-assignment,
// ++/--, or taking its address). The model has exactly one writer (EarlyReserveRegion); a second
// one is a change of the mechanism the C07 theorems talk about.
func c07CursorWriters() []string {
	repo := os.Getenv("VERIF_REPO")
	if repo == "" {
		repo = "/repo"
	}
	dir := filepath.Join(repo, "kernel/mm/vmm")
	ents, err := os.ReadDir(dir)
	if err != nil {
		panic(err)
	}
	set := map[string]bool{}
	isCursor := func(e ast.Expr) bool {
		for {
			if p, ok := e.(*ast.ParenExpr); ok {
				e = p.X
				continue
			}
			break
		}
		id, ok := e.(*ast.Ident)
		return ok && id.Name == "earlyReserveLastUsed"
	}
	for _, ent := range ents {
		n := ent.Name()
		if !strings.HasSuffix(n, ".go") || strings.HasSuffix(n, "_test.go") {
			continue
		}
		fset := token.NewFileSet()
		f, err := parser.ParseFile(fset, filepath.Join(dir, n), nil, 0)
		if err != nil {
			panic(err)
		}
		for _, d := range f.Decls {
			fn, ok := d.(*ast.FuncDecl)
			if !ok || fn.Body == nil {
				continue
			}
			name := fn.Name.Name
			if fn.Recv != nil {
				name = "(method)." + name
			}
			ast.Inspect(fn.Body, func(x ast.Node) bool {
				switch s := x.(type) {
				case *ast.AssignStmt:
					for _, l := range s.Lhs {
						if isCursor(l) && s.Tok != token.DEFINE {
							set[name] = true
						}
					}
				case *ast.IncDecStmt:
					if isCursor(s.X) {
						set[name] = true
					}
				case *ast.UnaryExpr:
					if s.Op == token.AND && isCursor(s.X) {
						set[name] = true
					}
				case *ast.RangeStmt:
					if (s.Key != nil && isCursor(s.Key)) || (s.Value != nil && isCursor(s.Value)) {
						set[name] = true
					}
				}
				return true
			})
		}
	}
	var out []string
	for k := range set {
		out = append(out, k)
	}
	sort.Strings(out)
	return out
}
