//go:build verif

package vmm

import (
	"testing"

	"github.com/ProjectSerenity/firefly/kernel/mm"
)

func TestVerifFactsC05(t *testing.T) {
	out := verifOpen("VERIF_FACTS_OUT")
	defer out.close()
	vmPrintFacts(out, "C05")
}

type c05gen struct {
	c04gen
}

// sections lays out k sections from `start` upwards; consecutive sections never share a page
// (as the linker script guarantees) unless `overlap` asks for an out-of-domain table.
func (g *c05gen) sections(start uint64, k int, maxPages int, overlap bool) []uint64 {
	return g.sectionsAt(start, k, maxPages, overlap, false)
}

// sectionsAt: with exact, the first section starts exactly at `start` (e.g. at the kernel offset).
func (g *c05gen) sectionsAt(start uint64, k int, maxPages int, overlap, exact bool) []uint64 {
	r := g.r
	var out []uint64
	page := start >> 12
	for i := 0; i < k; i++ {
		if !(exact && i == 0) {
			page += uint64(r.intn(3))
		}
		addr := page << 12
		if r.chance(40) && !(exact && i == 0) {
			addr += uint64(r.intn(4096))
		}
		var size uint64
		switch r.intn(6) {
		case 0:
			size = 1
		case 1:
			size = uint64(r.pick(4095, 4096, 4097, 8192))
		case 2:
			size = uint64(1 + r.intn(maxPages*4096))
		default:
			size = uint64(1 + r.intn(3*4096))
		}
		flags := uint64(r.intn(8))
		out = append(out, flags, addr, size)
		last := (addr + size - 1) >> 12
		page = last + 1
		if overlap && r.chance(50) {
			page = last
		}
	}
	return out
}

func TestVerifC05(t *testing.T) {
	out := verifOpen("VERIF_OUT")
	defer out.close()
	m := newVMachine()
	defer m.install()()
	rng := &vrng{s: verifSeed()}
	n := verifN(200)
	g := &c05gen{c04gen{m: m, out: out}}
	const off = uint64(0xffff800000000000)
	tmp := uint64(mm.PageFromAddress(tempMappingAddr))
	bcase := func(name string, f func()) {
		out.printf("case %s\n", name)
		g.r = &vrng{s: 4242}
		g.ample = false
		g.begin()
		f()
	}
	probeAll := func(secs []uint64, o uint64) {
		for i := 0; i+2 < len(secs) && g.alive; i += 3 {
			addr, size := secs[i+1], secs[i+2]
			g.do("xlate", addr)
			g.do("xlate", addr+size-1)
			g.do("xlate", addr+size-1+4096)
		}
		g.do("xlate", uint64(tempMappingAddr)-1)
		g.do("xlate", uint64(earlyReserveLastUsed))
		g.do("xlate", uint64(earlyReserveLastUsed)-1)
	}

	// a reservation that cannot fit: must fail and leave the reservation cursor where it was
	oversized := func(k int) uint64 {
		cur := uint64(earlyReserveLastUsed)
		switch k % 5 {
		case 0:
			return ^uint64(0) - 4095 - 7*4096 // (1<<63 would fit: the space below the cursor is almost 2^64)
		case 1:
			return ^uint64(0) - 4095
		case 2:
			return cur + 4096
		case 3:
			return cur + 1
		}
		return ^uint64(0) - 8191
	}
	// probes of every page reserved so far (first, last address of each region)
	var regions [][2]uint64
	region := func(frame, size, flags uint64) {
		before := uint64(earlyReserveLastUsed)
		g.do("region", frame, size, flags)
		after := uint64(earlyReserveLastUsed)
		if after < before && before-after < 1<<30 {
			regions = append(regions, [2]uint64{after, before - 1})
		}
	}
	probeRegions := func() {
		for _, rg := range regions {
			g.do("xlate", rg[0])
			g.do("xlate", rg[1])
		}
	}

	// ---- deterministic boundary list
	for k := 0; k < 5; k++ {
		k := k
		bcase("b-failed-reserve", func() {
			regions = regions[:0]
			g.refill(60)
			region(700, 3*4096, 3)
			region(900, 1, 1<<63|3)
			g.do("reserve", oversized(k)) // fails; everything reserved and mapped before must survive
			if k%2 == 0 {
				region(50, 4097, 1)
			}
			secs := []uint64{5, off + 0x200000, 2 * 4096}
			g.do("secs", secs...)
			g.do("setup", off)
			probeRegions()
			probeAll(secs, off)
		})
	}
	// sections 4 GiB and more above the kernel offset: the frame is (addr - off) >> 12 in 64 bits
	for v := 0; v < 3; v++ {
		v := v
		bcase("b-far-sections", func() {
			g.refill(70)
			o := []uint64{off, 0, 0x40000000}[v]
			secs := []uint64{
				5, o + 1<<32 - 4096, 4096,
				3, o + 1<<32, 2*4096 + 1,
				1, o + 1<<32 + 0x100000 + 0x10, 100,
				7, o + 1<<40, 4096,
				2, o + 3<<32 + 0x5000, 4097,
				4, o + 0x100000, 4096,
			}
			g.do("secs", secs...)
			g.do("setup", o)
			probeAll(secs, o)
		})
	}
	// a section whose Map fails for lack of a frame, while the copy of a reserved page afterwards needs
	// no new table (it shares the leaf table with an earlier section) and succeeds: the error must
	// still be returned and the half-built table must not be activated
	for k := 3; k <= 6; k++ {
		k := k
		bcase("b-section-fails-copy-succeeds", func() {
			g.refill(12)
			g.do("region", 700, 4096, 3) // also creates the temporary mapping's tables in the boot space
			g.refill(k)                  // new root + the three tables of the first section (+ k-4 more)
			secs := []uint64{1, vmPage(510, 511, 511, 5) << 12, 4096, 3, off + 0x100000, 4096, 5, off + 0x40000000, 4096}
			g.do("secs", secs...)
			g.do("setup", off)
			probeAll(secs, off)
		})
	}
	// the section table delivered by the real multiboot.VisitElfSections from an encoded info block:
	// starts off a page boundary whose tail crosses into one more page, empty sections, junk in the
	// upper half of the flags word
	for v := 0; v < 2; v++ {
		v := v
		bcase("b-multiboot-elf", func() {
			g.refill(70)
			secs := []uint64{
				5, off + 0x100032, 0x1000,
				3, off + 0x103ff0, 0x20,
				1 | 1<<40, off + 0x105001, 0xfff,
				7, off + 0x107fff, 2,
				2, off + 0x10a000, 0, // empty: not reported
				4 | 1<<33, off + 0x10c000, 4096,
				6, 0x100000, 8192, // below the offset
				0, off + 0x10e123, 3 * 4096,
			}
			if v == 1 {
				secs = append([]uint64{3, off, 4097}, secs...)
			}
			g.do("secsmb", secs...)
			g.do("setup", off)
			probeAll(secs, off)
		})
	}
	// many sections: every in-range one must be mapped, whatever their number
	for _, cnt := range []int{16, 17, 20, 40} {
		cnt := cnt
		bcase("b-many-sections", func() {
			g.refill(60)
			var secs []uint64
			secs = append(secs, 3, 0x100000, 4096, 5, 0x200000+5, 100) // below the offset
			for i := 0; i < cnt; i++ {
				addr := off + 0x100000 + uint64(i)*2*4096
				if i%3 == 1 {
					addr += 0x123
				}
				secs = append(secs, uint64(i%8), addr, uint64(1+(i*977)%5000))
				if i == cnt/2 {
					secs = append(secs, 7, 0x300000, 4096) // one more below the offset, in the middle
				}
			}
			g.do("secs", secs...)
			g.do("setup", off)
			probeAll(secs, off)
		})
	}
	bcase("b-at-offset", func() {
		g.refill(60)
		secs := []uint64{5, off, 4097, 3, off + 3*4096 + 1, 10, 1, off - 1, 1, 2, off - 4096, 4096}
		g.do("secs", secs...)
		g.do("setup", off)
		probeAll(secs, off)
		g.do("xlate", off)
		g.do("xlate", off+4096)
		g.do("xlate", off-1)
	})
	bcase("b-at-offset-1byte", func() {
		g.refill(60)
		secs := []uint64{7, off, 1, 0, off + 4096, 1}
		g.do("secs", secs...)
		g.do("setup", off)
		probeAll(secs, off)
	})
	bcase("b-at-offset-zero", func() {
		g.refill(60)
		secs := []uint64{5, 0, 2 * 4096, 3, 3 * 4096, 5} // offset 0: a section at address 0
		g.do("secs", secs...)
		g.do("setup", 0)
		probeAll(secs, 0)
		g.do("xlate", 0)
	})
	bcase("b-at-offset-mid", func() {
		g.refill(60)
		o := uint64(0x40000000)
		secs := []uint64{1, o, 4096, 4, o + 4096, 4096, 7, o - 4096, 4096}
		g.do("secs", secs...)
		g.do("setup", o)
		probeAll(secs, o)
	})
	for _, fl := range []uint64{0, 1, 2, 3, 4, 5, 6, 7} {
		fl := fl
		bcase("b-flags", func() {
			g.refill(40)
			secs := []uint64{fl, off + 0x100000, 4097, fl ^ 5, off + 0x103000 + 0x10, 1}
			g.do("secs", secs...)
			g.do("setup", off)
			probeAll(secs, off)
		})
	}
	bcase("b-below-offset", func() {
		g.refill(40)
		secs := []uint64{7, 0x100000, 8192, 3, off + 0x100000, 4096, 1, off - 4096, 4096}
		g.do("secs", secs...)
		g.do("setup", off)
		probeAll(secs, off)
	})
	bcase("b-reservations", func() {
		g.refill(60)
		g.do("region", 700, 3*4096, 3)
		g.do("region", 900, 1, 1<<63|3)
		g.do("region", 50, 4097, 1)
		secs := []uint64{5, off + 0x200000 + 0xfff, 2, 3, off + 0x3ff000, 3 * 4096}
		g.do("secs", secs...)
		g.do("setup", off)
		probeAll(secs, off)
		g.do("map", tmp-100, 55, 3) // the new address space is the active one
		g.do("xlate", (tmp-100)<<12)
	})
	bcase("b-reservation-unmapped", func() {
		g.refill(40)
		g.do("reserve", 8192) // reserved but never mapped: translate fails
		g.do("secs", 1, off+0x100000, 1)
		g.do("setup", off)
	})
	bcase("b-no-sections", func() {
		g.refill(8)
		g.do("secs")
		g.do("setup", off)
		g.do("xlate", off+0x100000)
	})
	for k := 0; k <= 9; k++ {
		k := k
		bcase("b-allocfail", func() {
			g.refill(12)
			g.do("region", 700, 4096, 3)
			g.refill(k)
			g.do("secs", 1, off+0x100000, 4096, 4, off+0x40000000, 4096)
			g.do("setup", off)
		})
	}
	bcase("b-tmpfail", func() {
		g.refill(12)
		g.do("tmpfail", 1)
		g.do("secs", 1, off+0x100000, 4096)
		g.do("setup", off)
	})
	bcase("b-offset-zero", func() {
		g.refill(40)
		secs := []uint64{5, 0x100000, 3 * 4096, 3, 0x200fff, 2}
		g.do("secs", secs...)
		g.do("setup", 0)
		probeAll(secs, 0)
	})
	bcase("b-big-section", func() {
		g.refill(40)
		secs := []uint64{3, off + 0x1ff000 - 5, 40 * 4096} // crosses a leaf-table boundary
		g.do("secs", secs...)
		g.do("setup", off)
		probeAll(secs, off)
	})

	// ---- seeded cases
	for i := 0; i < n; i++ {
		g.r = rng.fork()
		r := g.r
		out.printf("case %d\n", i)
		g.ample = false
		g.begin()
		g.universe()
		g.refill(int(r.pick(40, 60, 60, 80)))
		// early reservations, mapped as the allocators do it; now and then a request that cannot fit
		regions = regions[:0]
		for j := r.intn(6); j > 0 && g.alive; j-- {
			if r.chance(8) {
				g.do("reserve", uint64(1+r.intn(8192)))
			} else {
				region(g.frame(), uint64(1+r.intn(4*4096)), r.pick(3, 1, 1<<63|3, 0x203))
			}
			if r.chance(20) {
				g.do("reserve", oversized(r.intn(5)))
			}
		}
		if r.chance(10) {
			g.do("reserve", oversized(r.intn(5)))
		}
		o := off
		base := off + 0x100000
		exact := false
		switch r.intn(10) {
		case 0:
			o, base = 0, 0x100000
		case 1:
			o, base = 0x40000000, 0x40000000+uint64(r.intn(64))<<12
		case 2:
			base = off + uint64(r.intn(1<<18))<<12
		case 3, 4: // a section that starts exactly at the kernel offset
			base, exact = off, true
		case 5:
			o, base, exact = 0, 0, true
		case 6:
			o, base, exact = 0x40000000, 0x40000000, true
		case 7: // 4 GiB and more above the offset
			base = o + uint64(r.pick(1, 1, 2, 3, 256))<<32 - uint64(r.intn(3))<<12
		}
		secs := g.sectionsAt(base, r.intn(7), 40, r.chance(6), exact)
		if r.chance(12) { // far-away sections in addition
			far := g.sections(o+uint64(r.pick(1, 2, 5, 256))<<32+uint64(r.intn(1<<10))<<12, r.between(1, 2), 3, false)
			secs = append(secs, far...)
		}
		if o == off && r.chance(15) { // a section that shares its leaf table with the reserved pages
			secs = append([]uint64{uint64(r.intn(8)), vmPage(510, 511, 511, uint64(r.intn(100))) << 12, uint64(1 + r.intn(4096))}, secs...)
		}
		if exact && len(secs) == 0 {
			secs = []uint64{uint64(r.intn(8)), base, uint64(1 + r.intn(3*4096))}
		}
		if r.chance(30) { // sections outside the kernel's virtual range
			low := g.sections(uint64(0x1000+r.intn(1<<20)), r.between(1, 2), 3, false)
			if o != 0 {
				if r.chance(50) {
					secs = append(low, secs...)
				} else {
					secs = append(secs, low...)
				}
			}
		}
		if o != 0 && r.chance(50) { // through the real multiboot decoder (its string table is a host address: not with offset 0)
			if r.chance(20) && len(secs) >= 3 {
				secs = append(secs, uint64(r.intn(8)), base+0x70000000, 0) // an empty section
			}
			g.do("secsmb", secs...)
		} else {
			g.do("secs", secs...)
		}
		if r.chance(30) { // allocator failure somewhere on the way
			g.refill(r.intn(14))
		}
		if r.chance(3) {
			g.do("tmpfail", 1)
		}
		g.do("setup", o)
		if g.alive {
			probeRegions()
			probeAll(secs, o)
			if r.chance(50) {
				g.do("map", g.page(), g.frame(), g.flags())
			}
		}
	}
}
