//go:build verif

package vmm

import (
	"testing"

	"github.com/ProjectSerenity/firefly/kernel/mm"
)

func TestVerifFactsC06(t *testing.T) {
	out := verifOpen("VERIF_FACTS_OUT")
	defer out.close()
	vmPrintFacts(out, "C06")
}

type c06gen struct {
	c04gen
	tmp uint64
}

// winPage returns the page number of host-backed virtual page k.
func (g *c06gen) winPage(k int) uint64 { return uint64(g.m.win>>12) + uint64(k) }

// leaf flag subsets of {Present, RW, User, CoW, NX, Huge(PAT), Accessed, Dirty}
func (g *c06gen) leafFlags() uint64 {
	r := g.r
	switch r.intn(8) {
	case 0, 1, 2:
		return r.pick(0x201, 0x205, 0x201|1<<63, 0x221, 0x261, 0x281) // recoverable shapes
	case 3:
		return r.pick(0x203, 0x1, 0x3, 0x200, 0x202, 0, 0x5, 1<<63|1) // near misses
	}
	var fl uint64
	for _, b := range []uint64{1, 2, 4, 0x200, 1 << 63, 0x80, 0x20, 0x40} {
		if r.chance(50) {
			fl |= b
		}
	}
	return fl
}

// setupPage maps win page k to a fresh data frame with the given leaf flags and returns the frame.
func (g *c06gen) setupPage(k int, fl uint64, content uint64) uint64 {
	d := g.take()
	if content != 0 {
		g.do("fill", d, content)
	}
	g.do("map", g.winPage(k), d, fl)
	return d
}

// damage an upper level of va's path: clear Present (or set another bit) at level l
func (g *c06gen) damage(va uint64, l int, clearPresent bool) {
	if !g.alive {
		return
	}
	t, ok := g.m.tableOf(uintptr(va), l)
	if !ok {
		return
	}
	idx := (va >> hwShifts[l]) & 511
	e := *vmWord(uintptr(t)<<12 + uintptr(idx)*8)
	if clearPresent {
		e &^= 1
	} else {
		e |= g.r.pick(4, 0x20, 0x40, 0x100, 1<<63)
	}
	g.do("poke", t, idx, e)
}

func (g *c06gen) fault(va uint64) {
	g.do("pf", va, uint64(g.r.intn(32)))
}

func TestVerifC06(t *testing.T) {
	out := verifOpen("VERIF_OUT")
	defer out.close()
	m := newVMachine()
	defer m.install()()
	rng := &vrng{s: verifSeed()}
	n := verifN(300)
	g := &c06gen{c04gen: c04gen{m: m, out: out}, tmp: uint64(mm.PageFromAddress(tempMappingAddr))}
	bcase := func(name string, f func()) {
		out.printf("case %s\n", name)
		g.r = &vrng{s: 777}
		g.ample = false
		g.begin()
		f()
	}
	va := func(k int) uint64 { return g.winPage(k) << 12 }

	// ---- deterministic boundary list
	bcase("b-guard", func() {
		g.refill(12)
		g.do("map", g.winPage(0), 0, 3) // before initialisation frame 0 may be mapped RW
		g.do("rzf")
		zf := uint64(ReservedZeroedFrame)
		for _, fl := range []uint64{1, 3, 2, 0x201, 0x203, 7, 1<<63 | 3, 1<<63 | 1, 0x202} {
			g.do("map", g.winPage(1), zf, fl)
		}
		g.do("maptmp", zf)
		g.do("region", zf, 4096, 3)
		g.do("region", zf, 4096, 1)
		g.do("ident", zf, 1, 3)
		g.do("map", g.winPage(2), zf+1, 3)
		f1 := g.take()
		g.do("pinit", 1, f1)
		g.do("pmap", 1, g.winPage(3), zf, 3)
		g.do("pmap", 1, g.winPage(3), zf, 0x201)
	})
	// a page that was ever writable must not keep its RW bit when the zero frame is mapped on it
	// read-only / copy-on-write (what goruntime.sysMap does): through Map, the temporary-mapping
	// slot, PageDirectoryTable.Map on an inactive table and the region loops
	for _, unmapFirst := range []bool{true, false} {
		unmapFirst := unmapFirst
		bcase("b-stale-rw-map", func() {
			g.refill(16)
			g.do("rzf")
			zf := uint64(ReservedZeroedFrame)
			for k, fl := range []uint64{3, 1<<63 | 3, 7, 0x63} {
				d := g.take()
				g.do("map", g.winPage(k), d, fl)
				if unmapFirst {
					g.do("unmap", g.winPage(k))
				}
				g.do("map", g.winPage(k), zf, 0x201|1<<63)
				g.do("xlate", g.winPage(k)<<12)
			}
			g.do("pf", g.winPage(0)<<12|8, 3)
		})
		bcase("b-stale-rw-temp", func() {
			g.refill(16)
			g.do("rzf")
			zf := uint64(ReservedZeroedFrame)
			g.do("maptmp", g.take()) // the temporary slot is always mapped Present|RW
			if unmapFirst {
				g.do("unmap", g.tmp)
			}
			g.do("map", g.tmp, zf, 0x201|1<<63)
			g.do("map", g.tmp, zf, 0x201)
		})
		bcase("b-stale-rw-inactive", func() {
			g.refill(24)
			g.do("rzf")
			zf := uint64(ReservedZeroedFrame)
			g.do("pinit", 1, g.take())
			g.do("pmap", 1, g.winPage(2), g.take(), 3)
			if unmapFirst {
				g.do("punmap", 1, g.winPage(2))
			}
			g.do("pmap", 1, g.winPage(2), zf, 0x201|1<<63)
			g.do("act", 1)
			g.do("xlate", g.winPage(2)<<12)
		})
		bcase("b-stale-rw-region", func() {
			g.refill(24)
			g.do("rzf")
			zf := uint64(ReservedZeroedFrame)
			// the page MapRegion will reserve next, and the page IdentityMapRegion(zf) maps
			next := (uint64(earlyReserveLastUsed) - 4096) >> 12
			g.do("map", next, g.take(), 3)
			g.do("map", zf, g.take(), 1<<63|3)
			if unmapFirst {
				g.do("unmap", next)
				g.do("unmap", zf)
			}
			g.do("region", zf, 4096, 0x201)
			g.do("ident", zf, 1, 0x201|1<<63)
		})
	}
	bcase("b-rzf-fail", func() {
		g.refill(0)
		g.do("rzf")
		g.refill(1)
		g.do("rzf") // zero frame allocated, no frame left for the temporary mapping's tables
		g.refill(8)
		g.do("tmpfail", 1)
		g.do("rzf")
		g.do("tmpfail", 0)
		g.do("rzf")
		g.do("rzf")
	})
	// every interesting leaf shape x error code, one fault per case
	for _, fl := range []uint64{0x201, 0x203, 0x1, 0x3, 0x200, 0x0, 0x205, 0x201 | 1<<63, 0x281, 0x202} {
		fl := fl
		bcase("b-leaf", func() {
			g.refill(12)
			g.do("maptmp", 5)
			g.setupPage(0, fl, 0x1234)
			g.setupPage(1, 0x201, 0x99)
			g.do("pf", va(0)|0x123, 3)
			g.do("xlate", va(0)|5)
			g.do("xlate", va(1)|5)
			g.do("pf", va(0)|0x10, 3) // now RW: not recoverable
		})
	}
	for l := 0; l < 3; l++ {
		l := l
		bcase("b-upper-absent", func() {
			g.refill(12)
			g.do("maptmp", 5)
			g.setupPage(0, 0x201, 7)
			g.damage(va(0), l, true)
			g.do("pf", va(0), 2)
		})
		bcase("b-upper-flags", func() {
			g.refill(12)
			g.do("maptmp", 5)
			g.setupPage(0, 0x201, 7)
			g.damage(va(0), l, false)
			g.do("pf", va(0), 2)
		})
	}
	// present upper-level entries WITHOUT RW (plus NX / User / Accessed) on the temporary slot's path
	// and on the faulting page's path: the handler must walk through them and leave every other page
	// below them mapped
	for l := 0; l < 3; l++ {
		for variant := 0; variant < 3; variant++ {
			l, variant := l, variant
			bcase("b-readonly-upper", func() {
				g.refill(30)
				g.do("region", 700, 3*4096, 3)     // pages that share all three tables with the temporary page
				g.do("map", g.tmp-40, 4242, 1<<63|1) // another neighbour of the temporary page
				g.setupPage(0, 0x201, 0x77)
				g.setupPage(1, 0x201|1<<63, 0x99)
				g.setupPage(2, 3, 0x55)
				for _, va := range []uint64{uint64(tempMappingAddr), g.winPage(0) << 12} {
					if variant == 1 && va != uint64(tempMappingAddr) {
						continue
					}
					if variant == 2 && va == uint64(tempMappingAddr) {
						continue
					}
					if t, ok := m.tableOf(uintptr(va), l); ok {
						idx := (va >> hwShifts[l]) & 511
						e := *vmWord(uintptr(t)<<12 + uintptr(idx)*8)
						g.do("poke", t, idx, e&^2|[]uint64{0, 1 << 63, 4 | 0x20}[l])
					}
				}
				g.do("pf", g.winPage(0)<<12|0x18, 3)
				g.do("xlate", g.winPage(0)<<12)
				g.do("xlate", g.winPage(1)<<12)
				g.do("xlate", (g.tmp-40)<<12)
				g.do("xlate", uint64(earlyReserveLastUsed))
				g.do("pf", g.winPage(1)<<12, 3)
				g.do("xlate", uint64(earlyReserveLastUsed)+4096)
			})
		}
	}
	// out of memory in the handler after the vmm is initialised (guard armed), on copy-on-write pages
	// backed by an ordinary data frame (one of them shared by two pages) and by the zero frame: every
	// one of these faults must panic
	for v := 0; v < 4; v++ {
		v := v
		bcase("b-oom-after-init", func() {
			g.refill(16)
			g.do("rzf")
			zf := uint64(ReservedZeroedFrame)
			d := g.setupPage(0, 0x201, 0x4d)
			g.do("map", g.winPage(1), d, 0x201|1<<63) // the same data frame, shared copy-on-write
			g.do("map", g.winPage(2), zf, 0x201)
			g.setupPage(3, 0x205, 0)
			g.refill(0)
			g.do("pf", g.winPage(v)<<12|uint64(v*8), uint64(3-v%2))
		})
	}
	bcase("b-alloc-fail", func() {
		g.refill(8)
		g.do("maptmp", 5)
		g.setupPage(0, 0x201, 7)
		g.refill(0)
		g.do("pf", va(0), 3)
	})
	bcase("b-tmp-tables-fail", func() {
		g.refill(8)
		g.setupPage(0, 0x201, 7)
		g.refill(2) // copy frame + one of the three levels the temporary mapping needs
		g.do("pf", va(0), 3)
	})
	bcase("b-tmp-fail", func() {
		g.refill(8)
		g.setupPage(0, 0x201, 7)
		g.do("tmpfail", 1)
		g.do("pf", va(0), 3)
	})
	bcase("b-shared-zero", func() {
		g.refill(24)
		g.do("rzf")
		zf := uint64(ReservedZeroedFrame)
		for k := 0; k < 5; k++ {
			g.do("map", g.winPage(k), zf, 0x201)
		}
		for _, k := range []int{3, 0, 4, 1, 2} {
			g.do("pf", va(k)|uint64(k*8), 3)
			g.do("xlate", va(k))
		}
		g.do("pf", va(3), 3)
	})
	bcase("b-gpf", func() { g.do("gpf", 0x1000, 13) })
	bcase("b-unmapped", func() {
		g.refill(8)
		g.do("pf", 0xdead000, 0)
	})

	g.r = &vrng{s: verifSeed() ^ 0x5eed}
	g.memUtilCases(30)

	// ---- seeded cases
	for i := 0; i < n; i++ {
		g.r = rng.fork()
		r := g.r
		out.printf("case %d\n", i)
		g.ample = false
		g.begin()
		g.refill(int(r.pick(12, 16, 24)))
		withZero := r.chance(60)
		if withZero {
			g.do("rzf")
		} else if r.chance(50) {
			g.do("maptmp", uint64(1+r.intn(1000)))
		}
		zf := uint64(ReservedZeroedFrame)
		if r.chance(40) { // pages that share tables with the temporary page
			g.do("region", uint64(1+r.intn(1000)), uint64(1+r.intn(3*4096)), r.pick(3, 1, 1<<63|3))
		}
		// pages of the host-backed window
		np := r.between(1, 6)
		frames := make([]uint64, np)
		for k := 0; k < np; k++ {
			if withZero && r.chance(50) {
				fl := uint64(0x201)
				if r.chance(25) {
					fl = g.leafFlags()
				}
				g.do("map", g.winPage(k), zf, fl)
				frames[k] = zf
			} else {
				frames[k] = g.setupPage(k, g.leafFlags(), r.pick(0, 0, r.next()))
			}
		}
		// a page that was writable before gets the zero frame copy-on-write (stale flag bits must not survive)
		if withZero && r.chance(40) {
			k := r.intn(np)
			if r.chance(50) {
				g.do("map", g.winPage(k), g.take(), r.pick(3, 7, 1<<63|3, 0x23))
			}
			if r.chance(50) {
				g.do("unmap", g.winPage(k))
			}
			g.do("map", g.winPage(k), zf, r.pick(0x201, 0x201|1<<63, 0x205, 1))
			frames[k] = zf
		}
		// guard probes through every mapping entry point
		if withZero && r.chance(50) {
			fl := g.flags()
			switch r.intn(5) {
			case 0:
				g.do("map", g.winPage(10), zf, fl)
			case 1:
				g.do("maptmp", zf)
			case 2:
				g.do("region", zf, uint64(r.intn(3*4096)), fl)
			case 3:
				g.do("ident", zf, uint64(1+r.intn(4096)), fl)
			case 4:
				g.do("map", g.winPage(10), r.pick(zf+1, zf-1), fl|2)
			}
		}
		// now and then the allocator is empty when the first fault arrives
		if r.chance(12) {
			g.refill(0)
			g.fault(va(r.intn(np)) | uint64(r.intn(4096)))
		}
		// faults in random order, with occasional damage / failure injection
		steps := r.between(1, 8)
		for j := 0; j < steps && g.alive; j++ {
			k := r.intn(np)
			switch r.intn(16) {
			case 14: // read-only (still present) upper level on the temporary slot's path
				g.weaken(uint64(tempMappingAddr), r.intn(3))
			case 15: // ... or on the faulting page's path
				g.weaken(va(k), r.intn(3))
			case 0:
				g.damage(va(k), r.intn(3), r.chance(70))
			case 1:
				g.refill(int(r.pick(0, 1, 2)))
			case 2:
				g.do("tmpfail", 1)
			case 3:
				g.do("gpf", r.next(), uint64(r.intn(32)))
				continue
			case 4: // a fault on an address that is not host backed (never recoverable by construction)
				p := vmPage(uint64(r.intn(511)), uint64(r.intn(512)), uint64(r.intn(512)), uint64(r.intn(512)))
				if r.chance(50) {
					g.do("map", p, uint64(1+r.intn(1000)), g.leafFlags()&^0x200) // CoW only on host-backed pages
				}
				g.fault(p<<12 | uint64(r.intn(4096)))
				continue
			case 5:
				g.do("unmap", g.winPage(k))
			}
			g.fault(va(k) | uint64(r.intn(4096)))
			if g.alive {
				g.do("xlate", va(k)|uint64(r.intn(4096)))
				if r.chance(30) {
					g.do("xlate", va(r.intn(np)))
				}
			}
		}
	}
}
