//go:build verif

package console

// C10, client side (framebuffer): multiboot.GetFramebufferInfo returns a pointer INTO the
// information block, and the console drivers keep the RGB colour-info pointer for their whole
// life. "The kernel reports exactly what the block encodes" must still hold after the real
// probes, DriverInit and a few console operations have run. Same line protocol as
// harness/multiboot/c10_test.go (`#S/#I/#B`, `F`, `D`; `#X <step>` marks a client step), so
// drv_C10 compares every read with the encoded block.

import (
	"fmt"
	"image/color"
	"runtime/debug"
	"strings"
	"syscall"
	"testing"
	"unsafe"

	"github.com/ProjectSerenity/firefly/kernel"
	"github.com/ProjectSerenity/firefly/kernel/cpu"
	"github.com/ProjectSerenity/firefly/kernel/device"
	"github.com/ProjectSerenity/firefly/kernel/device/video/console/font"
	"github.com/ProjectSerenity/firefly/kernel/mm"
	"github.com/ProjectSerenity/firefly/kernel/mm/vmm"
	"github.com/ProjectSerenity/firefly/kernel/multiboot"
)

const (
	c10fPage = 4096
	c10fHint = 0x220000000000
)

type c10fArena struct {
	addr, end uintptr
	mem       []byte
}

func c10fNewArena() *c10fArena {
	total := uintptr(4 * c10fPage) // [guard][2 pages][guard]
	prot := uintptr(syscall.PROT_READ | syscall.PROT_WRITE)
	addr, _, errno := syscall.Syscall6(syscall.SYS_MMAP, c10fHint, total, prot,
		uintptr(syscall.MAP_PRIVATE|syscall.MAP_ANON|0x100000), ^uintptr(0), 0)
	if errno != 0 || addr != c10fHint {
		if errno == 0 {
			syscall.Syscall(syscall.SYS_MUNMAP, addr, total, 0)
		}
		addr, _, errno = syscall.Syscall6(syscall.SYS_MMAP, 0, total, prot,
			uintptr(syscall.MAP_PRIVATE|syscall.MAP_ANON), ^uintptr(0), 0)
		if errno != 0 {
			panic("c10fb: mmap failed")
		}
	}
	a := &c10fArena{addr: addr, end: addr + 3*c10fPage}
	a.mem = (*[1 << 30]byte)(unsafe.Pointer(addr))[:total:total]
	for _, page := range []uintptr{0, 3} {
		if _, _, e := syscall.Syscall(syscall.SYS_MPROTECT, addr+page*c10fPage, c10fPage, syscall.PROT_NONE); e != 0 {
			panic("c10fb: mprotect failed")
		}
	}
	return a
}

func c10fLe(b []byte, v uint64, n int) []byte {
	for i := 0; i < n; i++ {
		b = append(b, byte(v>>(8*uint(i))))
	}
	return b
}

func c10fHex(b []byte) string {
	if len(b) == 0 {
		return "-"
	}
	const d = "0123456789abcdef"
	var sb strings.Builder
	for _, c := range b {
		sb.WriteByte(d[c>>4])
		sb.WriteByte(d[c&15])
	}
	return sb.String()
}

type c10fCase struct {
	phys           uint64
	pitch, w, h    uint32
	bpp, fty       uint8
	color          []byte
	before         []byte // unknown tag (type 5) in front; nil = none
}

// same layout as c10Encode (harness/multiboot) and MBSpec.encode (Lean)
func (c *c10fCase) encode() []byte {
	var b []byte
	tag := func(ty uint32, body []byte) {
		b = c10fLe(b, uint64(ty), 4)
		b = c10fLe(b, uint64(8+len(body)), 4)
		b = append(b, body...)
		for len(b)%8 != 0 {
			b = append(b, 0xA5)
		}
	}
	if c.before != nil {
		tag(5, c.before)
	}
	var f []byte
	f = c10fLe(f, c.phys, 8)
	f = c10fLe(f, uint64(c.pitch), 4)
	f = c10fLe(f, uint64(c.w), 4)
	f = c10fLe(f, uint64(c.h), 4)
	f = append(f, c.bpp, c.fty, 0, 0)
	f = append(f, c.color...)
	tag(8, f)
	b = c10fLe(b, 0, 4)
	b = c10fLe(b, 8, 4)
	hdr := c10fLe(nil, uint64(len(b)+8), 4)
	hdr = c10fLe(hdr, 0, 4)
	return append(hdr, b...)
}

type c10fRun struct {
	out   *verifWriter
	arena *c10fArena
	base  uintptr
}

func c10fTry(f func()) (tok string) {
	defer func() {
		if r := recover(); r != nil {
			tok = "panic"
			if _, ok := r.(interface{ Addr() uintptr }); ok {
				tok = "fault"
			}
		}
	}()
	f()
	return ""
}

func (c *c10fRun) readFb() {
	var line string
	if f := c10fTry(func() {
		fb := multiboot.GetFramebufferInfo()
		if fb == nil {
			line = "ok nil"
			return
		}
		off := uint64(uintptr(unsafe.Pointer(fb)) - c.base)
		line = fmt.Sprintf("ok %d %d %d %d %d %d %d", off, fb.PhysAddr, fb.Pitch, fb.Width, fb.Height, fb.Bpp, fb.Type)
		if ci := fb.RGBColorInfo(); ci != nil {
			v := *ci
			line += fmt.Sprintf(" rgb %d %d %d %d %d %d", v.RedPosition, v.RedMaskSize, v.GreenPosition, v.GreenMaskSize, v.BluePosition, v.BlueMaskSize)
		} else {
			line += " norgb"
		}
	}); f != "" {
		line = f
	}
	c.out.printf("F | %s\n", line)
}

func (c *c10fRun) dump() {
	c.out.printf("D | %s\n", c10fHex(c.arena.mem[c.base-c.arena.addr:c.arena.end-c.arena.addr]))
}

func (c *c10fRun) step(name string) { c.out.printf("#X %s\n", name) }

func (c *c10fRun) run(id string, cs *c10fCase, r *vrng) {
	block := cs.encode()
	c.base = c.arena.end - uintptr(len(block))
	copy(c.arena.mem[c.base-c.arena.addr:], block)
	c.out.printf("case f%s\n", id)
	c.out.printf("#S %d %d 00\n", uint64(c.base), uint64(c.arena.end)+c10fPage)
	if cs.before != nil {
		c.out.printf("#I other 5 %s\n", c10fHex(cs.before))
	}
	c.out.printf("#I fb %d %d %d %d %d %d 0 %s\n", cs.phys, cs.pitch, cs.w, cs.h, cs.bpp, cs.fty, c10fHex(cs.color))
	c.out.printf("#B wf %s\n", c10fHex(block))
	multiboot.SetInfoPtr(c.base)
	getFramebufferInfoFn = multiboot.GetFramebufferInfo
	c.readFb()

	var drvs []device.Driver
	c.step("console-probe")
	c10fTry(func() {
		if d := probeForVesaFbConsole(); d != nil {
			drvs = append(drvs, d)
		}
		if d := probeForVgaTextConsole(); d != nil {
			drvs = append(drvs, d)
		}
	})
	c.readFb()

	for _, d := range drvs {
		var host []byte
		mapRegionFn = func(_ mm.Frame, size uintptr, _ vmm.PageTableEntryFlag) (mm.Page, *kernel.Error) {
			host = make([]byte, int(size)+2*c10fPage)
			p := (uintptr(unsafe.Pointer(&host[0])) + c10fPage - 1) &^ (c10fPage - 1)
			return mm.Page(p >> mm.PageShift), nil
		}
		c.step("console-init")
		c10fTry(func() { d.DriverInit(nil) })
		c.readFb()

		c.step("console-use")
		cons, _ := d.(Device)
		if vc, ok := d.(*VesaFbConsole); ok {
			c10fTry(func() { vc.SetFont(font.BestFit(cs.w, cs.h)) })
		}
		if cons != nil {
			for k := 0; k < 6; k++ {
				c10fTry(func() {
					switch k {
					case 0:
						cons.SetPaletteColor(uint8(1+r.intn(15)), color.RGBA{R: uint8(r.next()), G: uint8(r.next()), B: uint8(r.next()), A: 255})
					case 1:
						cons.Write(byte('A'+r.intn(26)), uint8(r.intn(16)), uint8(r.intn(16)), 1, 1)
					case 2:
						cons.Fill(1, 1, 2, 2, uint8(r.intn(16)), uint8(r.intn(16)))
					case 3:
						cons.Scroll(ScrollDirUp, 1)
					case 4:
						cons.SetPaletteColor(0, color.RGBA{R: 1, G: 2, B: 3, A: 255})
					default:
						cons.Write('z', 7, 0, 2, 1)
					}
				})
			}
		}
		c.readFb()
		host = nil
	}
	c.dump()
}

func c10fMasks(bpp uint8) []byte {
	switch bpp {
	case 15:
		return []byte{10, 5, 5, 5, 0, 5}
	case 16:
		return []byte{11, 5, 5, 6, 0, 5}
	}
	return []byte{16, 8, 8, 8, 0, 8}
}

func c10fGen(r *vrng) *c10fCase {
	cs := &c10fCase{phys: r.pick(0xa0000, 0xb8000, 0xfd000000, 0xe0000000)}
	if r.chance(40) {
		cs.before = make([]byte, r.intn(11))
	}
	cs.fty = uint8(r.pick(0, 1, 1, 2, 2, 3))
	switch cs.fty {
	case 2:
		cs.w, cs.h, cs.bpp = uint32(r.pick(40, 80, 132)), uint32(r.pick(25, 43, 50)), 16
		cs.pitch = cs.w * 2
		cs.color = make([]byte, r.intn(3))
	case 0:
		cs.w, cs.h, cs.bpp = uint32(64+8*r.intn(12)), uint32(32+16*r.intn(4)), 8
		cs.pitch = cs.w + uint32(r.intn(2)*r.intn(16))
		cs.color = make([]byte, 2+3*r.intn(4))
		for i := range cs.color {
			cs.color[i] = byte(r.next())
		}
	default:
		cs.w, cs.h, cs.bpp = uint32(64+8*r.intn(12)), uint32(32+16*r.intn(4)), uint8(r.pick(15, 16, 24, 32))
		cs.pitch = cs.w*(uint32(cs.bpp+1)>>3) + uint32(r.intn(2)*r.intn(16))
		cs.color = c10fMasks(cs.bpp)
		if cs.fty == 3 {
			cs.color = cs.color[:r.intn(7)]
		} else if r.chance(30) {
			cs.color = append(cs.color, byte(r.next())) // odd-sized tag
		}
	}
	return cs
}

func TestVerifC10Fb(t *testing.T) {
	out := verifOpen("VERIF_OUT")
	defer out.close()
	old := debug.SetPanicOnFault(true)
	defer debug.SetPanicOnFault(old)
	defer func() {
		portWriteByteFn, mapRegionFn, getFramebufferInfoFn = cpu.PortWriteByte, vmm.MapRegion, multiboot.GetFramebufferInfo
	}()
	portWriteByteFn = func(uint16, uint8) {}
	rng := &vrng{s: verifSeed() ^ 0xC10F}
	n := verifN(30)
	c := &c10fRun{out: out, arena: c10fNewArena()}
	br := &vrng{s: 0xC10F}
	for i, cs := range []*c10fCase{
		{phys: 0xfd000000, pitch: 4 * 128, w: 128, h: 64, bpp: 32, fty: 1, color: []byte{16, 8, 8, 8, 0, 8}},
		{phys: 0xfd000000, pitch: 2*96 + 6, w: 96, h: 48, bpp: 16, fty: 1, color: []byte{11, 5, 5, 6, 0, 5, 0xAB}, before: []byte{1, 2, 3}},
		{phys: 0xfd000000, pitch: 3 * 80, w: 80, h: 32, bpp: 24, fty: 1, color: []byte{16, 8, 8, 8, 0, 8}},
		{phys: 0xa0000, pitch: 100, w: 96, h: 48, bpp: 8, fty: 0, color: []byte{2, 0, 1, 2, 3, 4, 5, 6}},
		{phys: 0xb8000, pitch: 160, w: 80, h: 25, bpp: 16, fty: 2},
		{phys: 0xb8000, pitch: 160, w: 80, h: 25, bpp: 16, fty: 3, color: []byte{9}},
	} {
		c.run(fmt.Sprintf("b%d", i), cs, br)
	}
	for i := 0; i < n; i++ {
		r := rng.fork()
		c.run(fmt.Sprint(i), c10fGen(r), r)
	}
}
