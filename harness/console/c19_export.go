//go:build verif

package console

// Export shim for the C19 HAL harness (package hal): builds the shipped consoles through the real
// DriverInit on a host-memory framebuffer and exposes the state the trace needs.  Injected with
// `go test -overlay`; nothing here is part of /repo.

import (
	"image/color"

	"github.com/ProjectSerenity/firefly/kernel"
	"github.com/ProjectSerenity/firefly/kernel/device/video/console/font"
	"github.com/ProjectSerenity/firefly/kernel/mm"
	"github.com/ProjectSerenity/firefly/kernel/mm/vmm"
	"github.com/ProjectSerenity/firefly/kernel/multiboot"
)

// VerifC19StubPorts replaces the I/O port seam (SetLogo / palette loads write to the VGA DAC).
func VerifC19StubPorts() (restore func()) {
	old := portWriteByteFn
	portWriteByteFn = func(uint16, uint8) {}
	return func() { portWriteByteFn = old }
}

func verifC19MapTo(fbBase uintptr) (restore func()) {
	old := mapRegionFn
	mapRegionFn = func(_ mm.Frame, _ uintptr, _ vmm.PageTableEntryFlag) (mm.Page, *kernel.Error) {
		return mm.Page(fbBase >> mm.PageShift), nil
	}
	return func() { mapRegionFn = old }
}

// VerifC19Vesa runs NewVesaFbConsole + DriverInit with the framebuffer mapped at fbBase (page aligned).
func VerifC19Vesa(width, height uint32, bpp uint8, pitch uint32, ci *multiboot.FramebufferRGBColorInfo, fbBase uintptr) *VesaFbConsole {
	defer verifC19MapTo(fbBase)()
	c := NewVesaFbConsole(width, height, bpp, pitch, ci, 0xa0000)
	if err := c.DriverInit(nil); err != nil {
		panic(err)
	}
	return c
}

// VerifC19Text runs NewVgaTextConsole + DriverInit with the framebuffer mapped at fbBase.
func VerifC19Text(cols, rows uint32, fbBase uintptr) *VgaTextConsole {
	defer verifC19MapTo(fbBase)()
	c := NewVgaTextConsole(cols, rows, 0xb8000)
	if err := c.DriverInit(nil); err != nil {
		panic(err)
	}
	return c
}

// VerifC19VesaState: bytes per pixel, len(fb), logo rows, the selected font, default colours.
func VerifC19VesaState(c *VesaFbConsole) (bytesPerPixel, fbLen, offsetY uint32, f *font.Font, defFg, defBg uint8, clearChar uint16) {
	return c.bytesPerPixel, uint32(len(c.fb)), c.offsetY, c.font, c.defaultFg, c.defaultBg, c.clearChar
}

// VerifC19VesaPalette returns the 256 palette entries as r,g,b bytes.
func VerifC19VesaPalette(c *VesaFbConsole) []uint8 {
	out := make([]uint8, 0, 768)
	for _, e := range c.palette {
		rgba := e.(color.RGBA)
		out = append(out, rgba.R, rgba.G, rgba.B)
	}
	return out
}

// VerifC19TextState: len(fb), palette length, default colours, clear character.
func VerifC19TextState(c *VgaTextConsole) (fbLen, paletteLen int, defFg, defBg uint8, clearChar uint16) {
	return len(c.fb), len(c.palette), c.defaultFg, c.defaultBg, c.clearChar
}
