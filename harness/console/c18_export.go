//go:build verif

package console

// Export shim for the C18 harness (package tty): builds the shipped consoles on a host-memory
// framebuffer and exposes what is needed to read the screen back.  Injected with
// `go test -overlay`; nothing here is part of /repo.

import (
	"github.com/ProjectSerenity/firefly/kernel/device/video/console/font"
	"github.com/ProjectSerenity/firefly/kernel/multiboot"
)

// VerifTextConsole returns a VgaTextConsole drawing into fb (cols*rows words).
func VerifTextConsole(cols, rows uint32, fb []uint16) *VgaTextConsole {
	c := NewVgaTextConsole(cols, rows, 0xb8000)
	c.fb = fb
	return c
}

// VerifVesaConsole returns a VesaFbConsole drawing into fb (height*pitch bytes) with the default
// palette loaded, `offsetY` pixel rows reserved at the top (as SetLogo leaves them) and font f.
func VerifVesaConsole(width, height uint32, bpp uint8, pitch uint32, ci *multiboot.FramebufferRGBColorInfo,
	fb []uint8, offsetY uint32, f *font.Font) *VesaFbConsole {
	c := NewVesaFbConsole(width, height, bpp, pitch, ci, 0xa0000)
	c.fb = fb
	old := portWriteByteFn
	portWriteByteFn = func(uint16, uint8) {}
	c.loadDefaultPalette()
	portWriteByteFn = old
	c.offsetY = offsetY
	c.SetFont(f)
	return c
}

// VerifVesaPixel returns the bytes the console stores for one pixel of palette colour idx.
func VerifVesaPixel(c *VesaFbConsole, idx uint8) []uint8 {
	switch c.bpp {
	case 8:
		return []uint8{idx}
	case 15, 16:
		p := c.packColor16(idx)
		return p[:]
	default:
		p := c.packColor24(idx)
		return p[:]
	}
}

// VerifVesaGeom returns bytes per pixel and the text-area origin row.
func VerifVesaGeom(c *VesaFbConsole) (bytesPerPixel, offsetY uint32) {
	return c.bytesPerPixel, c.offsetY
}
