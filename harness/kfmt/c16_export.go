//go:build verif

package kfmt

// Export shim of the /verif C16 harness (injected with `go test -overlay`; never committed to /repo).
// It only exposes unexported state of the early ring buffer and of PrefixWriter to the harness
// that lives in package hal; it contains no logic.

// VerifEarlySet places the early buffer's read and write indices.
func VerifEarlySet(r, w int) { earlyPrintBuffer.rIndex, earlyPrintBuffer.wIndex = r, w }

// VerifEarlyIdx returns the early buffer's (rIndex, wIndex).
func VerifEarlyIdx() (int, int) { return earlyPrintBuffer.rIndex, earlyPrintBuffer.wIndex }

// VerifEarlyRead calls ringBuffer.Read on the early buffer.
func VerifEarlyRead(p []byte) (int, error) { return earlyPrintBuffer.Read(p) }

// VerifRingBufferSize returns the compiled ringBufferSize constant.
func VerifRingBufferSize() int { return ringBufferSize }

// VerifBytesAfterPrefix returns the writer's private line state.
func (w *PrefixWriter) VerifBytesAfterPrefix() int { return w.bytesAfterPrefix }
