//go:build verif

package kfmt

// C15, allocation clause at call-site-shaped callers.
//
// The A lines of c15_test.go measure Fprintf with arguments that were boxed beforehand (they are
// heap-backed already), so they cannot see an allocation that the formatter *causes in its caller*:
// when Fprintf's parameters leak (escape analysis), the caller's argument slice, the boxed values
// and the backing store of a []byte/string argument move from the caller's stack to the heap.
// Here every shape is a noinline function that builds its arguments from run-time values the way
// kernel callers do (compare kernel/device/acpi/aml/obj_tree.go: `eisaID[:]`) and calls
// Printf / Fprintf directly; testing.AllocsPerRun is taken around that function.
//
// Trace line:  S <shape> <fprintf|printf> <bytes written by one call> | <allocations per call>
//
// Shapes that allocate on the unchanged tree for reasons that are the caller's own (measured under
// go1.23: string(b) of more than 32 bytes — the conversion needs a heap buffer) are not in the list.

import (
	"io"
	"testing"
)

// run-time values (package variables: nothing here is a compile-time constant for the callee)
var (
	c15csSeed  uint64 = 0x0a0cd041
	c15csBig   uint64 = 0xfedcba9876543210
	c15csSmall uint64 = 7
)

type c15csShape struct {
	name string
	fn   func(w io.Writer, viaPrintf bool)
}

func c15csFill(b []byte, seed uint64) {
	for i := range b {
		b[i] = 'a' + byte((seed+uint64(i)*7)%26)
	}
}

//go:noinline
func c15csSlice1(w io.Writer, p bool) {
	var a [1]byte
	c15csFill(a[:], c15csSeed)
	if p {
		Printf("%s", a[:])
	} else {
		Fprintf(w, "%s", a[:])
	}
}

// the in-tree EISA-id caller: a [7]byte on the stack, printed as %10s together with a %8x
//
//go:noinline
func c15csSlice7(w io.Writer, p bool) {
	v := uint32(c15csSeed)
	var a [7]byte
	c15csFill(a[:], c15csSeed)
	if p {
		Printf("[EISA: \"%10s\"] 0x%8x", a[:], v)
	} else {
		Fprintf(w, "[EISA: \"%10s\"] 0x%8x", a[:], v)
	}
}

//go:noinline
func c15csSlice32(w io.Writer, p bool) {
	var a [32]byte
	c15csFill(a[:], c15csSeed)
	if p {
		Printf("%s|", a[:])
	} else {
		Fprintf(w, "%s|", a[:])
	}
}

//go:noinline
func c15csSlice33(w io.Writer, p bool) {
	var a [33]byte
	c15csFill(a[:], c15csSeed)
	if p {
		Printf("%40s", a[:])
	} else {
		Fprintf(w, "%40s", a[:])
	}
}

//go:noinline
func c15csSlice100(w io.Writer, p bool) {
	var a [100]byte
	c15csFill(a[:], c15csSeed)
	if p {
		Printf("<%s>", a[:int(c15csSmall)+90])
	} else {
		Fprintf(w, "<%s>", a[:int(c15csSmall)+90])
	}
}

// a string built from a local (non-escaping conversion: at most 32 bytes use a stack buffer)
//
//go:noinline
func c15csString7(w io.Writer, p bool) {
	var a [7]byte
	c15csFill(a[:], c15csSeed)
	s := string(a[:])
	if p {
		Printf("%s %12s", s, s)
	} else {
		Fprintf(w, "%s %12s", s, s)
	}
}

//go:noinline
func c15csString32(w io.Writer, p bool) {
	var a [32]byte
	c15csFill(a[:], c15csSeed)
	s := string(a[:int(c15csSmall)+25])
	if p {
		Printf("%s", s)
	} else {
		Fprintf(w, "%s", s)
	}
}

// small integers of every kind passed directly (the run-time's small-value boxing)
//
//go:noinline
func c15csSmallInts(w io.Writer, p bool) {
	v := c15csSmall
	if p {
		Printf("%d %d %d %d %d %d %d %d %d %d", uint8(v), uint16(v), uint32(v), uint64(v), uintptr(v),
			int8(v), int16(v), int32(v), int64(v), int(v))
	} else {
		Fprintf(w, "%d %d %d %d %d %d %d %d %d %d", uint8(v), uint16(v), uint32(v), uint64(v), uintptr(v),
			int8(v), int16(v), int32(v), int64(v), int(v))
	}
}

// local uint64 / uintptr variables with large run-time values
//
//go:noinline
func c15csBigLocals(w io.Writer, p bool) {
	a := c15csBig
	b := uintptr(c15csBig >> 3)
	if p {
		Printf("%d 0x%16x %o", a, b, a)
	} else {
		Fprintf(w, "%d 0x%16x %o", a, b, a)
	}
}

//go:noinline
func c15csNegLocals(w io.Writer, p bool) {
	a := -int64(c15csBig >> 1)
	b := int32(c15csSeed) - 1<<30
	c := -int(c15csSeed)
	if p {
		Printf("%d %8x %o", a, b, c)
	} else {
		Fprintf(w, "%d %8x %o", a, b, c)
	}
}

//go:noinline
func c15csBools(w io.Writer, p bool) {
	t := c15csSeed&1 == 1
	if p {
		Printf("%t %t", t, !t)
	} else {
		Fprintf(w, "%t %t", t, !t)
	}
}

// a mix in one call, including a missing, a surplus-free wrong-type and literal text
//
//go:noinline
func c15csMix(w io.Writer, p bool) {
	var a [7]byte
	c15csFill(a[:], c15csSeed)
	s := string(a[:3])
	x := c15csBig
	n := int16(c15csSeed)
	ok := c15csSeed > 5
	if p {
		Printf("dev %s (%6s): base=0x%16x irq=%3d ok=%t %d%% %x", a[:], s, x, n, ok, uint8(c15csSmall), ok)
	} else {
		Fprintf(w, "dev %s (%6s): base=0x%16x irq=%3d ok=%t %d%% %x", a[:], s, x, n, ok, uint8(c15csSmall), ok)
	}
}

// no arguments at all / too few arguments
//
//go:noinline
func c15csNoArgs(w io.Writer, p bool) {
	if p {
		Printf("plain text with 100%% literal and a missing %d")
	} else {
		Fprintf(w, "plain text with 100%% literal and a missing %d")
	}
}

var c15csShapes = []c15csShape{
	{"slice1", c15csSlice1}, {"slice7-eisa", c15csSlice7}, {"slice32", c15csSlice32}, {"slice33", c15csSlice33},
	{"slice100", c15csSlice100}, {"string7", c15csString7}, {"string32", c15csString32},
	{"small-ints", c15csSmallInts}, {"big-locals", c15csBigLocals}, {"neg-locals", c15csNegLocals},
	{"bools", c15csBools}, {"mix", c15csMix}, {"no-args", c15csNoArgs},
}

// c15CallSites measures every shape through Fprintf (a writer that stores nothing) and through
// Printf with no output sink set (the early-boot path: the package's ring buffer).
func c15CallSites(out *verifWriter) {
	savedSink, savedRing := outputSink, earlyPrintBuffer
	defer func() { outputSink, earlyPrintBuffer = savedSink, savedRing }()
	outputSink = nil
	cs := &c15Count{}
	var w io.Writer = cs
	for _, sh := range c15csShapes {
		fn := sh.fn
		for _, via := range []bool{false, true} {
			name := "fprintf"
			bytes := 0
			if via {
				name = "printf"
				before := earlyPrintBuffer.wIndex
				fn(w, true)
				bytes = (earlyPrintBuffer.wIndex - before) & (ringBufferSize - 1)
			} else {
				cs.n = 0
				fn(w, false)
				bytes = cs.n
			}
			allocs := testing.AllocsPerRun(20, func() { fn(w, via) })
			out.printf("S %s %s %d | %d\n", sh.name, name, bytes, int(allocs))
		}
	}
}
