#!/bin/bash
# benignin.sh <pid> [tag V1 V2]: take a finished benign-change agent's deliverables into benign/ and test them
p=$1; tag=${2:-}; v1=${3:-P}; v2=${4:-Q}
for v in $v1 $v2; do
  mkdir -p /verif/benign/$p-$v && cp /tmp/benign-$p$tag/BENIGN/$v/* /verif/benign/$p-$v/ || exit 1
done
git -C /repo worktree remove --force /tmp/benign-$p$tag 2>/dev/null
for v in $v1 $v2; do
  timeout 2400 python3 /verif/lib/benigntest.py /verif/benign/$p-$v 2>&1 | tail -1 | python3 -c "
import sys,json
r=json.loads(sys.stdin.read()); print(r['benign'], 'applies=',r.get('patch_applies'),'suite=',r.get('suite_passes_patched'),'ALARM=',r.get('alarm'),'kind',r.get('kind'), [l[-110:] for l in r.get('check_lines',[])][:1], str(r.get('detail'))[:200])"
done
