#!/usr/bin/env python3
"""benigncross.py [names…]: for every behaviour-preserving change in benign/, run the checks of ALL OTHER properties
anchored in a file the patch touches (a refactor made for one property must not alarm its neighbours either).
Writes benign/<name>/cross.json and prints one line per (change, property)."""
import sys, os, json, glob, subprocess, re, tempfile, shutil
ROOT = os.path.dirname(os.path.dirname(os.path.abspath(__file__)))
props = [json.loads(l) for l in open(os.path.join(ROOT, 'properties.jsonl'))]
extra = {  # clients the checks drive through extra runs (files outside the property's own anchors)
    'kernel/sync/spinlock.go': ['C08', 'C09'], 'kernel/sync/spinlock_amd64.s': ['C08', 'C09'],
    'kernel/mm/pmm/bitmap_allocator.go': ['C01', 'C02', 'C03', 'C07', 'C08', 'C09', 'C10'],
    'kernel/mm/pmm/bootmem_allocator.go': ['C01', 'C02', 'C03', 'C10'], 'kernel/mm/pmm/pmm.go': ['C01', 'C02', 'C03'],
    'kernel/multiboot/multiboot.go': ['C01', 'C02', 'C03', 'C05', 'C10', 'C16', 'C18', 'C19'],
    'kernel/hal/hal.go': ['C16', 'C18', 'C19'], 'kernel/mm/vmm/map.go': ['C04', 'C05', 'C06', 'C07'],
    'kernel/mm/vmm/pdt.go': ['C04', 'C05', 'C06', 'C07'], 'kernel/mm/vmm/addr_space.go': ['C05', 'C07'],
    'kernel/mm/page.go': ['C01', 'C04', 'C07'], 'kernel/device/acpi/aml/parser.go': ['C11', 'C12', 'C13'],
    'kernel/device/acpi/aml/obj_tree.go': ['C11', 'C12', 'C13'], 'kernel/device/tty/vt.go': ['C17', 'C18'],
    'kernel/device/video/console/vesa_fb.go': ['C18', 'C19', 'C10'], 'kernel/device/video/console/vga_text.go': ['C18', 'C19', 'C10'],
    'kernel/kfmt/fmt.go': ['C15', 'C16'], 'kernel/kfmt/ringbuf.go': ['C16'], 'kernel/kfmt/prefix_writer.go': ['C16'],
    'kernel/goruntime/bootstrap.go': ['C07'], 'kernel/mem_util.go': ['C04', 'C06'],
}
def targets(patch):
    files = re.findall(r'^\+\+\+ b/(\S+)', open(patch).read(), re.M)
    out = set()
    for f in files:
        for p in props:
            if any(f == a or f.endswith(a) or a.endswith(f) for a in p['anchors']['files']):
                out.add(p['id'])
        out.update(extra.get(f, []))
    return sorted(out)
want = sys.argv[1:]
for d in sorted(glob.glob(os.path.join(ROOT, 'benign/*/'))):
    name = os.path.basename(d.rstrip('/'))
    if want and not any(name.startswith(w) for w in want):
        continue
    own = json.load(open(os.path.join(d, 'meta.json')))['property']
    tg = [t for t in targets(os.path.join(d, 'patch.diff')) if t != own]
    if not tg:
        continue
    wt = tempfile.mkdtemp(prefix='bx-', dir='/tmp'); os.rmdir(wt)
    res = {}
    try:
        subprocess.run(['git', '-C', '/repo', 'worktree', 'add', '--detach', wt], capture_output=True, check=True)
        if subprocess.run(['git', '-C', wt, 'apply', os.path.join(d, 'patch.diff')], capture_output=True).returncode != 0:
            print(name, 'patch does not apply'); continue
        for t in tg:
            p = subprocess.run([os.path.join(ROOT, 'check'), t], cwd=ROOT, env=dict(os.environ, VERIF_REPO=wt), stdout=subprocess.PIPE, stderr=subprocess.STDOUT, text=True)
            vio = [l for l in p.stdout.split('\n') if l.startswith('VIOLATION')]
            kind = ''
            if vio:
                m = re.search(r'replay=(\S+)', vio[0])
                if m and os.path.exists(os.path.join(ROOT, m.group(1))):
                    r = json.load(open(os.path.join(ROOT, m.group(1)))); kind = '%s %s' % (r.get('kind'), str(r.get('broken') or r.get('failing') or r.get('mismatches'))[:160])
                    os.remove(os.path.join(ROOT, m.group(1)))
            res[t] = {'rc': p.returncode, 'alarm': p.returncode != 0 or bool(vio), 'kind': kind}
            print(name, t, 'ALARM' if res[t]['alarm'] else 'ok', kind, flush=True)
    finally:
        subprocess.run(['git', '-C', '/repo', 'worktree', 'remove', '--force', wt], capture_output=True); shutil.rmtree(wt, ignore_errors=True)
    for t in tg:  # restore generated facts from /repo
        subprocess.run([os.path.join(ROOT, 'check'), t], cwd=ROOT, env=dict(os.environ, VERIF_REPO='/repo'), capture_output=True)
    json.dump(res, open(os.path.join(d, 'cross.json'), 'w'), indent=1)
