#!/usr/bin/env python3
"""seedall.py [-jN] [ids…]: run lib/seedtest.py over every seeded change. Seeds of one property (and of properties that
share generated files: C01–C03) run one after the other; different groups run in parallel (default 4 workers)."""
import sys, os, glob, subprocess, json
from concurrent.futures import ThreadPoolExecutor
ROOT = os.path.dirname(os.path.dirname(os.path.abspath(__file__)))
args = sys.argv[1:]
jobs = 4
if args and args[0].startswith('-j'):
    jobs = int(args[0][2:]); args = args[1:]
want = args
groups = {}
for d in sorted(glob.glob(os.path.join(ROOT, 'seeded/*/'))):
    name = os.path.basename(d.rstrip('/'))
    if want and not any(name.startswith(w) for w in want):
        continue
    pid = name.split('-')[0]
    g = 'pmm' if pid in ('C01', 'C02', 'C03') else ('aml' if pid in ('C11', 'C12', 'C13') else ('spin' if pid in ('C08', 'C09') else pid))
    groups.setdefault(g, []).append(d)
def run_group(ds):
    out = []
    for d in ds:
        name = os.path.basename(d.rstrip('/'))
        p = subprocess.run([sys.executable, os.path.join(ROOT, 'lib/seedtest.py'), d, '--no-suite'], stdout=subprocess.PIPE, stderr=subprocess.STDOUT, text=True)
        try:
            r = json.loads(p.stdout.strip().split('\n')[-1])
        except Exception:
            print(name, 'ERROR', p.stdout[-300:], flush=True); out.append((name, None)); continue
        print(name, 'applies=%s demo_fails=%s detected=%s by=%s' % (r.get('patch_applies'), r.get('demo_fails_patched'), r.get('detected'), r.get('by')), flush=True)
        out.append((name, r))
    return out
res = []
with ThreadPoolExecutor(jobs) as ex:
    for o in ex.map(run_group, groups.values()):
        res += o
n = len(res)
noapply = [x for x, r in res if r and r.get('patch_applies') is False]
miss = [x for x, r in res if r and r.get('patch_applies') and not r.get('detected')]
print('%d seeds, %d not detected %s, %d no longer apply %s' % (n, len(miss), miss, len(noapply), noapply))
