#!/usr/bin/env python3
"""seedall.py [ids…]: run lib/seedtest.py over every seeded change (sequentially: the checks share the lean workspace)."""
import sys, os, glob, subprocess, json
ROOT = os.path.dirname(os.path.dirname(os.path.abspath(__file__)))
want = sys.argv[1:]
n = miss = 0
for d in sorted(glob.glob(os.path.join(ROOT, 'seeded/*/'))):
    name = os.path.basename(d.rstrip('/'))
    if want and not any(name.startswith(w) for w in want):
        continue
    p = subprocess.run([sys.executable, os.path.join(ROOT, 'lib/seedtest.py'), d, '--no-suite'], stdout=subprocess.PIPE, stderr=subprocess.STDOUT, text=True)
    try:
        r = json.loads(p.stdout.strip().split('\n')[-1])
    except Exception:
        print(name, 'ERROR', p.stdout[-300:]); continue
    n += 1
    ok = r.get('detected')
    miss += not ok
    print(name, 'applies=%s demo_fails=%s detected=%s by=%s' % (r.get('patch_applies'), r.get('demo_fails_patched'), ok, r.get('by')), flush=True)
print('%d seeds, %d not detected' % (n, miss))
