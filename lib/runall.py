#!/usr/bin/env python3
"""runall.py [--tier quick|thorough] [--seed N] [ids…]: run the claimed checks (lib/ready.txt) and summarise."""
import sys, os, subprocess, concurrent.futures as cf
ROOT = os.path.dirname(os.path.dirname(os.path.abspath(__file__)))
args = sys.argv[1:]
tier, seed = 'quick', '1'
if '--tier' in args:
    i = args.index('--tier'); tier = args[i + 1]; del args[i:i + 2]
if '--seed' in args:
    i = args.index('--seed'); seed = args[i + 1]; del args[i:i + 2]
ids = args or open(os.path.join(ROOT, 'lib/ready.txt')).read().split()
def run(pid):
    p = subprocess.run([os.path.join(ROOT, 'check'), pid, '--tier', tier], cwd=ROOT, env=dict(os.environ, VERIF_SEED=seed),
                       stdout=subprocess.PIPE, stderr=subprocess.STDOUT, text=True)
    lines = [l for l in p.stdout.split('\n') if l.startswith(pid) or l.startswith('VIOLATION') or l.startswith('KNOWN')]
    return pid, p.returncode, ' | '.join(lines)
bad = 0
with cf.ThreadPoolExecutor(max_workers=4) as ex:
    for pid, rc, line in ex.map(run, ids):
        print('%s rc=%d %s' % (pid, rc, line))
        bad += rc != 0
print('ALL OK' if not bad else '%d FAILED' % bad)
sys.exit(1 if bad else 0)
