#!/usr/bin/env python3
"""seedtest.py <seed-dir> [--tier quick|thorough] [--no-suite]

Confirms a seeded change (patch.diff + demo + meta.json) in a scratch worktree of /repo and runs
the property's check against it:  (1) clean tree: demo passes; (2) patched tree: existing suite
passes, demo fails; (3) VERIF_REPO=<patched tree> ./check <id> must exit 1 with a VIOLATION line.
Prints one JSON line with the outcome. The scratch worktree is removed afterwards.
"""
import sys, os, json, subprocess, shutil, re, tempfile

ROOT = os.path.dirname(os.path.dirname(os.path.abspath(__file__)))
ENV = dict(os.environ, GOFLAGS='-mod=mod', GOPROXY='off', GOSUMDB='off', GOTOOLCHAIN='local')


def sh(cmd, cwd=None, env=None, timeout=3600):
    p = subprocess.run(cmd, cwd=cwd, env=env or ENV, shell=isinstance(cmd, str), timeout=timeout,
                       stdout=subprocess.PIPE, stderr=subprocess.STDOUT, text=True, errors='replace')
    return p.returncode, p.stdout


def demo_target(seed, wt):
    """(demo file, package dir inside the worktree) from the first-line comment of the demo."""
    for f in sorted(os.listdir(seed)):
        if f.endswith('_test.go') or (f.endswith('.go') and f != 'patch.diff'):
            first = open(os.path.join(seed, f)).readline()
            m = re.search(r'((?:kernel|kbuild)[\w/.\-]*)', first)
            if m:
                d = m.group(1).rstrip('/.')
                if d.endswith('.go'):
                    d = os.path.dirname(d)
                return f, os.path.join(wt, d)
    return None, None


def run_demo(seed, wt):
    if os.path.exists(os.path.join(seed, 'run_demo.sh')):
        # the seed ships its own runner (expects to live in <worktree>/SEED/<variant>/)
        var = os.path.basename(seed).split('-')[-1]
        d = os.path.join(wt, 'SEED', var)
        shutil.copytree(seed, d, dirs_exist_ok=True)
        try:
            rc, out = sh(['sh', os.path.join(d, 'run_demo.sh')], cwd=wt)
        finally:
            shutil.rmtree(os.path.join(wt, 'SEED'), ignore_errors=True)
        return rc == 0, out[-1500:]
    f, pkgdir = demo_target(seed, wt)
    if not f:
        return None, 'no demo with a package comment found'
    dst = os.path.join(pkgdir, 'zz_seed_' + f)
    shutil.copy(os.path.join(seed, f), dst)
    try:
        names = re.findall(r'^func (Test\w+)\(', open(dst).read(), re.M)
        rc, out = sh(['go', 'test', '-vet=off', '-count=1', '-run', '^(%s)$' % '|'.join(names), '.'], cwd=pkgdir)
    finally:
        os.remove(dst)
    return rc == 0, out[-1500:]


def main():
    seed = os.path.abspath(sys.argv[1])
    tier = 'quick'
    if '--tier' in sys.argv:
        tier = sys.argv[sys.argv.index('--tier') + 1]
    meta = json.load(open(os.path.join(seed, 'meta.json')))
    pid = meta['property']
    wt = tempfile.mkdtemp(prefix='seedrun-%s-' % pid, dir='/tmp')
    os.rmdir(wt)
    res = {'seed': os.path.relpath(seed, ROOT), 'property': pid, 'tier': tier,
           'repo_commit': subprocess.run(['git', '-C', '/repo', 'rev-parse', '--short', 'HEAD'], capture_output=True, text=True).stdout.strip()}
    try:
        rc, out = sh(['git', '-C', '/repo', 'worktree', 'add', '--detach', wt])
        assert rc == 0, out
        res['demo_passes_clean'], log = run_demo(seed, wt)
        rc, out = sh(['git', '-C', wt, 'apply', os.path.join(seed, 'patch.diff')])
        res['patch_applies'] = rc == 0
        if rc != 0:
            # the tree has moved on (later fix: commits) and the patch no longer applies: keep the earlier result
            res['error'] = out[-800:]
            print(json.dumps(res)); return 2
        if '--no-suite' not in sys.argv:
            ok = True
            for mod in ('kbuild', 'kernel'):
                rc, out = sh(['go', 'test', '-vet=off', '-count=1', './...'], cwd=os.path.join(wt, mod))
                bad = [l for l in out.split('\n') if l.startswith('FAIL') or l.startswith('--- FAIL')]
                # kernel/goruntime does not link under this toolchain (not part of the baseline)
                bad = [l for l in bad if 'goruntime' not in l and l.strip() != 'FAIL']
                if bad:
                    ok = False
                    res.setdefault('suite_failures', []).extend(bad[:5])
            res['suite_passes_patched'] = ok
        passed, log = run_demo(seed, wt)
        res['demo_fails_patched'] = (passed is False)
        env = dict(os.environ, VERIF_REPO=wt, VERIF_TIER=tier)
        rc, out = sh([os.path.join(ROOT, 'check'), pid, '--tier', tier], cwd=ROOT, env=env, timeout=7200)
        res['check_rc'] = rc
        res['check_lines'] = [l for l in out.split('\n') if l.startswith('VIOLATION') or l.startswith(pid + ' tier')]
        vio = [l for l in out.split('\n') if l.startswith('VIOLATION')]
        res['detected'] = rc == 1 and bool(vio)
        if vio:
            m = re.search(r'replay=(\S+)', vio[0])
            if m and os.path.exists(os.path.join(ROOT, m.group(1))):
                r = json.load(open(os.path.join(ROOT, m.group(1))))
                res['by'] = r.get('kind')
                res['detail'] = (r.get('failing') or r.get('mismatches') or r.get('broken') or [''])[:2]
                os.remove(os.path.join(ROOT, m.group(1)))
    finally:
        sh(['git', '-C', '/repo', 'worktree', 'remove', '--force', wt])
        shutil.rmtree(wt, ignore_errors=True)
    # restore generated facts and evidence from /repo itself
    rc, out = sh([os.path.join(ROOT, 'check'), pid], cwd=ROOT, env=dict(os.environ, VERIF_REPO='/repo'), timeout=7200)
    res['restored_clean'] = rc == 0
    old = os.path.join(seed, 'result.json')
    if 'suite_passes_patched' not in res and os.path.exists(old):
        try:
            prev = json.load(open(old))
            if 'suite_passes_patched' in prev:
                res['suite_passes_patched'] = prev['suite_passes_patched']
                res['suite_checked_at'] = prev.get('suite_checked_at', prev.get('repo_commit'))
        except Exception:
            pass
    json.dump(res, open(old, 'w'), indent=1)
    print(json.dumps(res))
    return 0


if __name__ == '__main__':
    sys.exit(main())
