#!/usr/bin/env python3
"""Regenerates MANIFEST.json from lib/props.py (run after adding a property)."""
import json, os, sys
ROOT = os.path.dirname(os.path.dirname(os.path.abspath(__file__)))
sys.path.insert(0, os.path.join(ROOT, 'lib'))
from props import PROPS, NOT_APPLICABLE

ALL = [json.loads(l)['id'] for l in open(os.path.join(ROOT, 'properties.jsonl'))]
# properties whose check is complete (maintained by hand; builders' in-progress configs are not claimed)
READY = set(open(os.path.join(ROOT, 'lib', 'ready.txt')).read().split())
PROPS = {k: v for k, v in PROPS.items() if k in READY}
checks = []
for pid in ALL:
    if pid not in PROPS:
        continue
    c = PROPS[pid]
    checks.append({
        'property_id': pid,
        'quick_cmd': './check %s --tier quick' % pid,
        'thorough_cmd': './check %s --tier thorough' % pid,
        'evidence_file': 'evidence/%s.json' % pid,
        'replay_cmd_template': './check %s --replay {path}' % pid,
        'engine': 'lean4-proof+correspondence',
        'level_claimed': {'category': 'proof', 'text': c['level_text'], 'design_ref': c.get('design_ref', 'DESIGN.md section 5, ' + pid)},
        'level_note': c['level_note'],
        'technique': c.get('technique', 'Lean 4 theorems about an executable model; model tied to /repo by regenerated facts and a differential correspondence run'),
    })
na = [{'property_id': p, 'reason': NOT_APPLICABLE.get(p, 'check not built yet (work in progress; see DESIGN.md section 6)')} for p in ALL if p not in PROPS]
m = {
    'version': 1,
    'setup_cmd': './check --setup',
    'hooks': {
        'guard': 'verif',
        'enable': 'go test -tags verif -overlay build/<id>/overlay.json (harness files are injected from /verif/harness; nothing is added to /repo)',
        'baseline_off_cmd': 'for m in kbuild kernel; do (cd /repo/$m && GOFLAGS=-mod=mod GOPROXY=off go test -json -vet=off -count=1 -timeout 25m ./...); done',
        'source_commits': [],
        'add_only': True,
    },
    'engines': [{'name': 'lean4-proof+correspondence', 'path': 'check', 'serves_properties': [c['property_id'] for c in checks],
                 'kind_free_text': 'Lean 4 model + theorems (lean/), facts regenerated from /repo, Go overlay harness + Lean driver (ffdriver) for model/implementation correspondence and property oracle'}],
    'checks': checks,
    'not_applicable': na,
    'notes': 'See DESIGN.md. fix: commits in /repo are listed in known_findings.json (fixed entries).',
}
json.dump(m, open(os.path.join(ROOT, 'MANIFEST.json'), 'w'), indent=1)
print('MANIFEST.json: %d checks, %d not claimed' % (len(checks), len(na)))
