#!/usr/bin/env python3
"""benigntest.py <benign-dir>: apply a behaviour-preserving change in a scratch worktree, confirm the existing suite
passes, run the property's check against it. Expected: exit 0 / no VIOLATION. Anything else is recorded as an alarm
(with its kind: broken tie / proof / mismatch / propfail) in result.json."""
import sys, os, json, subprocess, shutil, re, tempfile
ROOT = os.path.dirname(os.path.dirname(os.path.abspath(__file__)))
ENV = dict(os.environ, GOFLAGS='-mod=mod', GOPROXY='off', GOSUMDB='off', GOTOOLCHAIN='local')
def sh(cmd, cwd=None, env=None, timeout=7200):
    p = subprocess.run(cmd, cwd=cwd, env=env or ENV, timeout=timeout, stdout=subprocess.PIPE, stderr=subprocess.STDOUT, text=True, errors='replace')
    return p.returncode, p.stdout
def main():
    d = os.path.abspath(sys.argv[1])
    meta = json.load(open(os.path.join(d, 'meta.json')))
    pid = meta['property']
    wt = tempfile.mkdtemp(prefix='benignrun-%s-' % pid, dir='/tmp'); os.rmdir(wt)
    res = {'benign': os.path.relpath(d, ROOT), 'property': pid,
           'repo_commit': subprocess.run(['git', '-C', '/repo', 'rev-parse', '--short', 'HEAD'], capture_output=True, text=True).stdout.strip()}
    try:
        rc, out = sh(['git', '-C', '/repo', 'worktree', 'add', '--detach', wt]); assert rc == 0, out
        rc, out = sh(['git', '-C', wt, 'apply', os.path.join(d, 'patch.diff')])
        res['patch_applies'] = rc == 0
        if rc != 0:
            res['error'] = out[-500:]; print(json.dumps(res)); return 2
        if '--no-suite' not in sys.argv:
            ok = True
            for mod in ('kbuild', 'kernel'):
                rc, out = sh(['go', 'test', '-vet=off', '-count=1', './...'], cwd=os.path.join(wt, mod))
                bad = [l for l in out.split('\n') if (l.startswith('FAIL') or l.startswith('--- FAIL')) and 'goruntime' not in l and l.strip() != 'FAIL']
                if bad: ok = False; res.setdefault('suite_failures', []).extend(bad[:5])
            res['suite_passes_patched'] = ok
        rc, out = sh([os.path.join(ROOT, 'check'), pid], cwd=ROOT, env=dict(os.environ, VERIF_REPO=wt))
        res['check_rc'] = rc
        res['check_lines'] = [l for l in out.split('\n') if l.startswith('VIOLATION') or l.startswith(pid + ' tier')]
        vio = [l for l in out.split('\n') if l.startswith('VIOLATION')]
        res['alarm'] = rc != 0 or bool(vio)
        if vio:
            m = re.search(r'replay=(\S+)', vio[0])
            if m and os.path.exists(os.path.join(ROOT, m.group(1))):
                r = json.load(open(os.path.join(ROOT, m.group(1))))
                res['kind'] = r.get('kind'); res['detail'] = str(r.get('failing') or r.get('mismatches') or r.get('broken') or '')[:600]
                res['errors'] = str(r.get('errors') or '')[:800]
                os.remove(os.path.join(ROOT, m.group(1)))
    finally:
        sh(['git', '-C', '/repo', 'worktree', 'remove', '--force', wt]); shutil.rmtree(wt, ignore_errors=True)
    rc, out = sh([os.path.join(ROOT, 'check'), pid], cwd=ROOT, env=dict(os.environ, VERIF_REPO='/repo'))
    res['restored_clean'] = rc == 0
    json.dump(res, open(os.path.join(d, 'result.json'), 'w'), indent=1)
    print(json.dumps(res)); return 0
if __name__ == '__main__':
    sys.exit(main())
