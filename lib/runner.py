"""Orchestration for /verif/check (see DESIGN.md section 2)."""
import sys, os, json, re, subprocess, time, hashlib, fcntl, shutil, glob

ROOT = os.path.dirname(os.path.dirname(os.path.abspath(__file__)))
REPO = os.environ.get('VERIF_REPO', '/repo')
LEAN = os.path.join(ROOT, 'lean')
BUILD = os.path.join(ROOT, 'build')
ALLOWED_AXIOMS = {'propext', 'Classical.choice', 'Quot.sound'}
FORBIDDEN = re.compile(r'\bsorry\b|\badmit\b|^\s*axiom\s|native_decide|bv_decide|implemented_by|\bunsafe\s|maxHeartbeats\s+0\b')

GOENV = dict(os.environ, GOFLAGS='-mod=mod', GOPROXY='off', GOSUMDB='off', GOTOOLCHAIN='local',
             CGO_ENABLED=os.environ.get('CGO_ENABLED', '1'))

from props import PROPS  # noqa: E402


def _tree_rss_kb(pid):
    """resident set of a process and its descendants (kB), from /proc"""
    kids, total = {}, 0
    for d in os.listdir('/proc'):
        if d.isdigit():
            try:
                st = open('/proc/%s/stat' % d).read().rsplit(')', 1)[1].split()
                kids.setdefault(int(st[1]), []).append(int(d))
            except Exception:
                pass
    todo = [pid]
    while todo:
        q = todo.pop()
        todo += kids.get(q, [])
        try:
            for line in open('/proc/%d/status' % q):
                if line.startswith('VmRSS:'):
                    total += int(line.split()[1])
        except Exception:
            pass
    return total


TRANSIENT = ('failed to create thread', 'Resource temporarily unavailable', 'resource temporarily unavailable',
             'cannot allocate memory', 'Cannot allocate memory')


def sh(cmd, cwd=None, env=None, timeout=None, stdin=None):
    """run a command; `lake` commands are retried when they die of a transient resource shortage (many
    checks may be running at once), so that machine load is never reported as a broken proof"""
    for attempt in range(4):
        rc, out, err, dt = _sh(cmd, cwd, env, timeout, stdin)
        if rc == 0 or not (isinstance(cmd, list) and cmd and cmd[0] == 'lake') or \
                not any(t in out + err for t in TRANSIENT):
            break
        time.sleep(5 + 10 * attempt)
    return rc, out, err, dt


def _sh(cmd, cwd=None, env=None, timeout=None, stdin=None):
    t0 = time.time()
    try:
        if isinstance(cmd, list) and cmd and cmd[0] == 'lake':
            # a runaway elaboration (e.g. `decide` on a huge term) must not take the machine down:
            # kill the build when its process tree exceeds VERIF_LEAN_MEM_GB of resident memory
            cap = int(os.environ.get('VERIF_LEAN_MEM_GB', '20')) * (1 << 20)
            fo, fe = [open(os.devnull if False else os.path.join(BUILD, '.lake_out_%d_%s' % (os.getpid(), k)), 'w+') for k in 'oe']
            p = subprocess.Popen(cmd, cwd=cwd, env=env, stdout=fo, stderr=fe, text=True, start_new_session=True)
            killed = ''
            while p.poll() is None:
                time.sleep(1.0)
                if timeout and time.time() - t0 > timeout:
                    killed = '\n[timeout after %ss]' % timeout
                elif _tree_rss_kb(p.pid) > cap:
                    killed = '\n[killed: lake/lean exceeded %d GB resident memory]' % (cap >> 20)
                if killed:
                    try:
                        os.killpg(p.pid, 9)
                    except Exception:
                        p.kill()
                    p.wait()
            outs = []
            for f in (fo, fe):
                f.seek(0); outs.append(f.read()); f.close(); os.remove(f.name)
            return (p.returncode if not killed else -9), outs[0], outs[1] + killed, time.time() - t0
        p = subprocess.run(cmd, cwd=cwd, env=env, timeout=timeout, input=stdin,
                           stdout=subprocess.PIPE, stderr=subprocess.PIPE, text=True, errors='replace')
        return p.returncode, p.stdout, p.stderr, time.time() - t0
    except subprocess.TimeoutExpired as e:
        out = e.stdout.decode(errors='replace') if isinstance(e.stdout, bytes) else (e.stdout or '')
        err = e.stderr.decode(errors='replace') if isinstance(e.stderr, bytes) else (e.stderr or '')
        return -9, out, err + '\n[timeout after %ss]' % timeout, time.time() - t0


class Lock:
    """lake is not safe to run concurrently in one workspace; checks may be started in parallel."""
    def __init__(self, name='lake'):
        os.makedirs(BUILD, exist_ok=True)
        self.path = os.path.join(BUILD, '.%s.lock' % name)
    def __enter__(self):
        self.f = open(self.path, 'w')
        fcntl.flock(self.f, fcntl.LOCK_EX)
    def __exit__(self, *a):
        fcntl.flock(self.f, fcntl.LOCK_UN)
        self.f.close()


# ------------------------------------------------------------------ harness build

def overlay_for(pid, cfg, bdir):
    """Write the overlay that injects the harness files into the package under test."""
    repl = {}
    pkgdir = os.path.join(REPO, cfg['module'], cfg['pkg'])
    tmpl = open(os.path.join(ROOT, 'harness/common/common_test.go.tmpl')).read()
    common = os.path.join(bdir, 'zz_verif_common_test.go')
    with open(common, 'w') as f:
        f.write(tmpl.replace('PKGNAME', cfg['pkgname']))
    repl[os.path.join(pkgdir, 'zz_verif_common_test.go')] = common
    for h in cfg['harness']:
        repl[os.path.join(pkgdir, 'zz_verif_' + os.path.basename(h))] = os.path.join(ROOT, 'harness', h)
    for target, src in cfg.get('extra_overlay', {}).items():
        repl[os.path.join(REPO, target)] = os.path.join(ROOT, 'harness', src)
    sc = cfg.get('srccopy')
    if sc:
        # verbatim copy of selected declarations of a source file into the (synthetic) package under test
        exe = os.path.join(BUILD, 'srccopy')
        with Lock('srccopy'):
            if not os.path.exists(exe) or os.path.getmtime(exe) < os.path.getmtime(os.path.join(ROOT, 'tools/srccopy/main.go')):
                rc, out, err, dt = sh(['go', 'build', '-o', exe, '.'], cwd=os.path.join(ROOT, 'tools/srccopy'), env=GOENV, timeout=600)
        dst = os.path.join(bdir, 'zz_verif_srccopy.go')
        cmd = [exe, '-src', os.path.join(REPO, sc['src']), '-pkg', cfg['pkgname'], '-decls', ','.join(sc['decls'])]
        if sc.get('preamble'):
            cmd += ['-preamble', os.path.join(ROOT, 'harness', sc['preamble'])]
        rc, out, err, dt = sh(cmd, timeout=120)
        with open(dst, 'w') as f:
            f.write(out if rc == 0 else 'package %s\n\nfunc init() { srccopy_failed_%s }\n' % (cfg['pkgname'], 'see_stderr'))
        if rc != 0:
            sys.stderr.write('srccopy failed: %s\n' % err[-500:])
        repl[os.path.join(pkgdir, 'zz_verif_srccopy.go')] = dst
    path = os.path.join(bdir, 'overlay.json')
    with open(path, 'w') as f:
        json.dump({'Replace': repl}, f, indent=1)
    return path, pkgdir


def build_harness(pid, cfg, bdir):
    ov, pkgdir = overlay_for(pid, cfg, bdir)
    binp = os.path.join(bdir, 'harness.test')
    if os.path.exists(binp):
        os.remove(binp)
    cmd = ['go', 'test', '-c', '-vet=off', '-tags', 'verif', '-overlay', ov, '-o', binp, './' + cfg['pkg']]
    if cfg.get('race'):
        cmd.insert(3, '-race')
    rc, out, err, dt = sh(cmd, cwd=os.path.join(REPO, cfg['module']), env=GOENV, timeout=600)
    ok = rc == 0 and os.path.exists(binp)
    return ok, (out + err), binp, pkgdir


def run_test(binp, pkgdir, name, env_extra, timeout):
    env = dict(GOENV)
    env.update(env_extra)
    if not os.path.isdir(pkgdir):
        pkgdir = os.path.dirname(binp)   # synthetic package (exists only in the overlay)
    return sh([binp, '-test.run', '^%s$' % name, '-test.count=1', '-test.timeout', '%ds' % (timeout + 60)],
              cwd=pkgdir, env=env, timeout=timeout + 90)


# ------------------------------------------------------------------ lean side

def write_if_changed(path, text):
    old = open(path).read() if os.path.exists(path) else None
    if old != text:
        os.makedirs(os.path.dirname(path), exist_ok=True)
        tmp = path + '.tmp'
        with open(tmp, 'w') as f:
            f.write(text)
        os.replace(tmp, path)
        return True
    return False


def theorem_names(pid, module='Props'):
    path = os.path.join(LEAN, 'Firefly/%s/%s.lean' % (module, pid))
    if not os.path.exists(path):
        return []
    src = open(path).read()
    ns = re.search(r'^namespace\s+(\S+)', src, re.M).group(1)
    names = []
    for m in re.finditer(r'^(private\s+)?theorem\s+([^\s:(\[{]+)', src, re.M):
        if not m.group(1):
            names.append(ns + '.' + m.group(2))
    return names


def write_audit(pid, names, tie=None):
    body = 'import Firefly.Props.%s\n%s-- GENERATED by ./check: axioms used by every property theorem\n' % (
        pid, 'import Firefly.Tie.%s\n' % tie if tie else '')
    body += ''.join('#print axioms %s\n' % n for n in names)
    write_if_changed(os.path.join(LEAN, 'Firefly/Audit/%s.lean' % pid), body)


def strip_comments(src):
    # remove /- ... -/ (nested) and -- line comments, and string literals
    out, i, depth, n = [], 0, 0, len(src)
    while i < n:
        if src.startswith('/-', i):
            depth += 1; i += 2; continue
        if depth and src.startswith('-/', i):
            depth -= 1; i += 2; continue
        if depth:
            i += 1; continue
        if src.startswith('--', i):
            j = src.find('\n', i)
            i = n if j < 0 else j
            continue
        if src[i] == '"':
            j = i + 1
            while j < n and src[j] != '"':
                j += 2 if src[j] == '\\' else 1
            i = j + 1
            out.append('""')
            continue
        out.append(src[i]); i += 1
    return ''.join(out)


def import_closure(roots):
    """Lean source files (under lean/) transitively imported by the given modules."""
    seen, todo = set(), list(roots)
    while todo:
        mod = todo.pop()
        if mod in seen:
            continue
        path = os.path.join(LEAN, mod.replace('.', '/') + '.lean')
        if not os.path.exists(path):
            continue
        seen.add(mod)
        for m in re.finditer(r'^\s*(?:public\s+)?import\s+((?:Firefly|Drivers)[\w.]*)', open(path).read(), re.M):
            todo.append(m.group(1))
    return [os.path.join(LEAN, m.replace('.', '/') + '.lean') for m in sorted(seen)]


def source_scan(pid):
    """Forbidden constructs in everything the property's theorems and driver depend on."""
    hits = []
    for p in import_closure(['Firefly.Props.%s' % pid, 'Drivers.%s' % pid]):
        for ln, line in enumerate(strip_comments(open(p).read()).split('\n'), 1):
            if FORBIDDEN.search(line):
                hits.append('%s:%d: %s' % (os.path.relpath(p, ROOT), ln, line.strip()))
    return hits


def lean_check(pid, thorough=False, tie=False, tie_lost=(), tie_name=None):
    """Build theorems + driver (+ tie lemmas), run the axiom audit. Returns dict."""
    res = {'ok': True, 'errors': [], 'theorems': [], 'discharged': [], 'axioms': {}, 'tie_ok': None}
    names = theorem_names(pid)
    tie_name = tie_name or pid
    tie_names = theorem_names(tie_name, 'Tie') if tie else []
    with Lock():
        rc, out, err, dt = sh(['lake', 'build', 'drv_%s' % pid], cwd=LEAN, timeout=3000)
    res['driver_ok'] = rc == 0
    if rc != 0:
        res['errors'].append('driver build failed:\n' + (out + err)[-3000:])
    if tie:
        with Lock():
            rc, out, err, dt = sh(['lake', 'build', 'Firefly.Tie.%s' % tie_name], cwd=LEAN, timeout=3000)
        res['tie_ok'] = rc == 0
        if rc != 0:
            res['tie_error'] = (out + err)[-4000:]
            if tie_lost:
                # a refactored site: not a violation by itself (DESIGN 2.3); the tie lemmas are not audited this run
                tie_names = []
            else:
                res['ok'] = False
                res['errors'].append('tie lemmas no longer check (changed expression):\n' + (out + err)[-4000:])
                res['theorems'] = names + tie_names
                return res
    names = names + tie_names
    res['theorems'] = names
    write_audit(pid, names, tie=tie_name if tie_names else None)
    with Lock():
        rc, out, err, dt = sh(['lake', 'build', 'Firefly.Props.%s' % pid], cwd=LEAN, timeout=3000)
        res['lake_s'] = dt
        if rc != 0:
            res['ok'] = False
            txt = out + err
            res['errors'].append(txt[-6000:])
            res['failed_decls'] = sorted(set(re.findall(r'error: (\S+\.lean:\d+):', txt)))
            return res
        rc, out, err, dt = sh(['lake', 'env', 'lean', 'Firefly/Audit/%s.lean' % pid], cwd=LEAN, timeout=1200)
        if thorough:
            rc2, o2, e2, _ = sh(['lake', 'env', 'leanchecker', 'Firefly.Props.%s' % pid], cwd=LEAN, timeout=3000)
            res['leanchecker'] = 'ok' if rc2 == 0 else 'FAILED: ' + (o2 + e2)[-2000:]
            if rc2 != 0:
                res['ok'] = False
                res['errors'].append('leanchecker: ' + (o2 + e2)[-2000:])
    txt = out + err
    if rc != 0:
        res['ok'] = False
        res['errors'].append('audit failed:\n' + txt[-3000:])
        return res
    flat = re.sub(r'\s+', ' ', txt)
    for n in names:
        m = re.search(r"'%s' depends on axioms: \[([^\]]*)\]" % re.escape(n), flat)
        if m:
            ax = [a.strip() for a in m.group(1).split(',') if a.strip()]
        elif re.search(r"'%s' does not depend on any axioms" % re.escape(n), flat):
            ax = []
        else:
            res['ok'] = False
            res['errors'].append('audit: no axiom report for %s' % n)
            continue
        res['axioms'][n] = ax
        bad = [a for a in ax if a not in ALLOWED_AXIOMS]
        if bad:
            res['ok'] = False
            res['errors'].append('audit: %s depends on %s' % (n, bad))
        else:
            res['discharged'].append(n)
    hits = source_scan(pid)
    if hits:
        res['ok'] = False
        res['errors'].append('forbidden constructs in lean/: ' + '; '.join(hits[:10]))
    return res


def run_exprgen(pid, cfg, bdir):
    """Regenerate Gen/<id>Expr.lean from the Go source. Returns (ok, lost anchors, changed)."""
    spec = os.path.join(ROOT, 'lib/anchors', cfg['anchors'])
    exe = os.path.join(BUILD, 'exprgen')
    with Lock('exprgen'):
        if not os.path.exists(exe) or os.path.getmtime(exe) < os.path.getmtime(os.path.join(ROOT, 'tools/exprgen/main.go')):
            rc, out, err, dt = sh(['go', 'build', '-o', exe, '.'], cwd=os.path.join(ROOT, 'tools/exprgen'), env=GOENV, timeout=600)
            if rc != 0:
                return False, ['exprgen build failed: ' + (out + err)[-500:]], False
    name = cfg.get('expr_name', pid + 'Expr')
    rc, out, err, dt = sh([exe, '-repo', REPO, '-spec', spec, '-ns', 'Firefly.Gen.' + name], timeout=300)
    if rc != 0:
        return False, ['exprgen failed: ' + err[-500:]], False
    lines = out.split('\n')
    imports = ''.join('import %s\n' % m for m in cfg.get('expr_imports', []))
    text = lines[0] + '\n' + imports + '\n'.join(lines[1:])
    lost = re.findall(r'^-- LOST: (\S+)', out, re.M)
    with Lock():
        changed = write_if_changed(os.path.join(LEAN, 'Firefly/Gen/%s.lean' % name), text)
    return True, lost, changed


# ------------------------------------------------------------------ known findings

def load_known(pid):
    p = os.path.join(ROOT, 'known_findings.json')
    if not os.path.exists(p):
        return []
    d = json.load(open(p))
    return [e for e in d.get('known', []) if e.get('property') == pid]


def parse_kv(line):
    """PROPFAIL case=.. clause=.. feature=.. op=... impl=... -> dict (op/impl run to next key)"""
    d = {}
    keys = list(re.finditer(r'(?:^|\s)(case|clause|feature|op|impl|model|detail)=', line))
    for i, m in enumerate(keys):
        end = keys[i + 1].start() if i + 1 < len(keys) else len(line)
        d[m.group(1)] = line[m.end():end].strip()
    return d


def match_known(pf, known):
    for k in known:
        if k.get('clause') and k['clause'] != pf.get('clause'):
            continue
        if k.get('feature') and k['feature'] != pf.get('feature'):
            continue
        if k.get('op') and k['op'] != pf.get('op'):
            continue
        return k
    return None


# ------------------------------------------------------------------ one correspondence run

def corr_run(pid, cfg, bdir, binp, pkgdir, tier, seed, tag=''):
    """Run harness + driver. Returns dict with mismatches, propfails, stats, trace path."""
    trace = os.path.join(bdir, 'trace%s.txt' % tag)
    n = cfg['n'][tier]
    env = {'VERIF_OUT': trace, 'VERIF_SEED': str(seed), 'VERIF_N': str(n), 'VERIF_TIER': tier,
           'VERIF_BUILD': bdir}
    env.update(cfg.get('env', {}))
    if tag == '-search':
        # targeted search: a property may cap its cost (search_n rounds/cases, search_env overrides)
        env['VERIF_N'] = str(cfg.get('search_n', n))
        env['VERIF_SEARCH'] = '1'
        env.update(cfg.get('search_env', {}))
    tmo = cfg.get('timeout', {}).get(tier, 600 if tier == 'quick' else 3000)
    rc, out, err, dt = run_test(binp, pkgdir, 'TestVerif' + pid, env, tmo)
    res = {'harness_rc': rc, 'harness_s': dt, 'harness_out': (out + err)[-4000:], 'trace': trace,
           'mismatch': [], 'propfail': [], 'stats': {}, 'driver_rc': None}
    if not os.path.exists(trace):
        res['harness_rc'] = rc if rc != 0 else 1
        return res
    # additional harnesses in other packages (their lines are appended to the same trace)
    for k, ex in enumerate(cfg.get('extra_runs', [])):
        xdir = os.path.join(bdir, 'extra%d' % k)
        os.makedirs(xdir, exist_ok=True)
        xok, xlog, xbin, xpkg = build_harness(pid, ex, xdir)
        xtrace = os.path.join(xdir, 'trace%s.txt' % tag)
        if xok:
            xenv = dict(env, VERIF_OUT=xtrace, VERIF_N=str(ex.get('n', cfg['n'])[tier]))
            xrc, xo, xe, _ = run_test(xbin, xpkg, ex['test'], xenv, tmo)
        if not xok or xrc != 0 or not os.path.exists(xtrace):
            res['harness_rc'] = 1
            res['harness_out'] += '\nextra harness %s failed:\n%s' % (ex['test'], (xlog if not xok else xo + xe)[-3000:])
            continue
        with open(trace, 'a') as f:
            f.write(open(xtrace).read())
    rc2, out2, err2, dt2 = sh([os.path.join(LEAN, '.lake/build/bin/drv_%s' % pid), trace], timeout=tmo + 600)
    res['driver_rc'], res['driver_s'], res['driver_err'] = rc2, dt2, err2[-2000:]
    for line in out2.split('\n'):
        if line.startswith('MISMATCH'):
            res['mismatch'].append(line)
        elif line.startswith('PROPFAIL'):
            res['propfail'].append(line)
        elif line.startswith('STAT '):
            _, k, v = line.split(' ', 2)
            try:
                res['stats'][k] = int(v)
            except ValueError:
                res['stats'][k] = v
    return res


def trace_summary(trace, cfg):
    """evaluations / distinct non-trivial cases / samples, measured from the trace itself."""
    nt = re.compile(cfg.get('nontrivial', r'.'))
    seen, evals, samples = set(), 0, []
    with open(trace, errors='replace') as f:
        for line in f:
            line = line.rstrip('\n')
            if not line or line.startswith('case ') or line.startswith('#'):
                continue
            evals += 1
            if nt.search(line):
                h = hashlib.blake2b(line.encode(), digest_size=8).digest()
                if h not in seen:
                    seen.add(h)
                    if len(samples) < 3 or (len(samples) < 6 and evals % 997 == 0):
                        samples.append(line[:400])
    return evals, len(seen), samples


# ------------------------------------------------------------------ main

def write_replay(pid, tier, seed, kind, payload):
    os.makedirs(os.path.join(ROOT, 'replays'), exist_ok=True)
    name = 'replays/%s-%s-seed%s-%s.json' % (pid, tier, seed, kind)
    with open(os.path.join(ROOT, name), 'w') as f:
        json.dump(dict(property=pid, tier=tier, seed=seed, kind=kind, **payload), f, indent=1)
    return name


def check(pid, tier, seed, replay=None):
    t0 = time.time()
    cfg = PROPS[pid]
    # one scratch directory per run: two checks of the same property may run at the same time
    bdir = os.path.join(BUILD, pid if os.environ.get('VERIF_KEEP') else '%s.%d' % (pid, os.getpid()))
    shutil.rmtree(bdir, ignore_errors=True)
    os.makedirs(bdir)
    violations = []      # (replay path, suffix)
    known_lines = []
    notes = []

    # 1. harness build against the current tree (tie of record for behaviour)
    hok, hlog, binp, pkgdir = build_harness(pid, cfg, bdir)
    facts_changed = False
    facts_failed = None
    if hok and cfg.get('facts', True):
        fo = os.path.join(bdir, 'facts.lean')
        fname = cfg.get('facts_name', pid)
        rc, out, err, dt = run_test(binp, pkgdir, 'TestVerifFacts' + fname, {'VERIF_FACTS_OUT': fo, 'VERIF_REPO': REPO}, 300)
        if rc != 0 or not os.path.exists(fo):
            # broken tie (the fact generator cannot read the changed source); the correspondence run and the
            # oracle still run against the model as last generated, to look for a failing input
            facts_failed = 'facts extraction failed:\n' + (out + err)[-4000:]
            notes.append('facts extraction failed; correspondence runs with the previously generated facts')
        else:
            with Lock():
                facts_changed = write_if_changed(os.path.join(LEAN, 'Firefly/Gen/%s.lean' % fname), open(fo).read())
            if facts_changed:
                notes.append('generated facts changed')

    # expression anchors: regenerate the Lean terms of selected Go expressions (tools/exprgen)
    tie, tie_lost = False, []
    if cfg.get('anchors'):
        eok, tie_lost, echanged = run_exprgen(pid, cfg, bdir)
        tie = eok
        if not eok:
            notes.append('exprgen failed: %s' % tie_lost)
            tie_lost = ['exprgen']
        if echanged:
            notes.append('generated expressions changed')
            facts_changed = True
        if tie_lost:
            notes.append('anchor-lost: %s' % ','.join(tie_lost))

    # 2./3. theorems, audit, scan
    lean = lean_check(pid, thorough=(tier == 'thorough'), tie=tie, tie_lost=tie_lost, tie_name=cfg.get('tie_name'))

    # 4. correspondence + oracle
    corr = None
    if hok and lean.get('driver_ok'):
        corr = corr_run(pid, cfg, bdir, binp, pkgdir, tier, seed)
        need_search = (not lean['ok']) or corr['mismatch'] or corr['harness_rc'] != 0 or bool(tie_lost) or lean.get('tie_ok') is False or bool(facts_failed)
        if need_search and not corr['propfail'] and tier == 'quick':
            # targeted search: widen to the thorough generators to look for a failing input
            notes.append('targeted search: thorough-tier generators')
            c2 = corr_run(pid, cfg, bdir, binp, pkgdir, 'thorough', seed, tag='-search')
            if c2['propfail']:
                corr['propfail'] = c2['propfail']
                corr['search_trace'] = c2['trace']

    known = load_known(pid)
    unknown_pf = []
    if corr:
        seen_known = set()
        for line in corr['propfail']:
            pf = parse_kv(line)
            k = match_known(pf, known)
            if k:
                key = k.get('id') or json.dumps(k, sort_keys=True)
                if key not in seen_known:
                    seen_known.add(key)
                    known_lines.append('KNOWN-FINDING: property=%s %s' % (pid, k.get('description', k.get('clause'))))
            else:
                unknown_pf.append(line)

    if unknown_pf:
        first = parse_kv(unknown_pf[0])
        rp = write_replay(pid, tier, seed, 'propfail', {
            'failing': unknown_pf[:20], 'first': first, 'count': len(unknown_pf),
            # what else no longer checks on this tree (the failing input above is the replay of record)
            'also_broken': ([] if hok else ['corr:build']) + (['corr:facts'] if facts_failed else []) +
                           ([] if lean['ok'] else ['proof:' + ','.join(n for n in lean['theorems'] if n not in lean['discharged'])[:400]]) +
                           (['tie:' + ','.join(tie_lost)] if tie_lost else []) + (['tie:lemmas'] if lean.get('tie_ok') is False else []),
            'how': 'VERIF_SEED=%s ./check %s --tier %s  (case %s)' % (seed, pid, tier, first.get('case'))})
        violations.append((rp, ''))
    else:
        if not hok:
            rp = write_replay(pid, tier, seed, 'broken-tie', {'broken': 'corr:build', 'log': hlog[-6000:]})
            violations.append((rp, ' no-failing-input-found'))
        elif facts_failed:
            rp = write_replay(pid, tier, seed, 'broken-tie', {'broken': 'corr:facts (TestVerifFacts%s)' % cfg.get('facts_name', pid),
                                                             'log': facts_failed})
            violations.append((rp, ' no-failing-input-found'))
        if not lean['ok']:
            missing = [n for n in lean['theorems'] if n not in lean['discharged']]
            rp = write_replay(pid, tier, seed, 'broken-proof', {
                'broken': (['tie:Firefly.Tie.%s (expression regenerated from the Go source no longer equals the model term)' % pid]
                           if lean.get('tie_ok') is False and not tie_lost else
                           ['thm:' + n for n in missing] or ['thm:build']), 'errors': lean['errors'],
                'facts_changed': facts_changed, 'failed_at': lean.get('failed_decls')})
            violations.append((rp, ' no-failing-input-found'))
        if corr and corr['harness_rc'] != 0:
            rp = write_replay(pid, tier, seed, 'harness-crash', {
                'broken': 'corr:%s/harness' % pid, 'rc': corr['harness_rc'], 'log': corr['harness_out']})
            violations.append((rp, ' no-failing-input-found'))
        elif corr and (corr['driver_rc'] != 0):
            rp = write_replay(pid, tier, seed, 'driver-crash', {
                'broken': 'corr:%s/driver' % pid, 'rc': corr['driver_rc'], 'log': corr.get('driver_err')})
            violations.append((rp, ' no-failing-input-found'))
        elif corr and corr['mismatch']:
            rp = write_replay(pid, tier, seed, 'mismatch', {
                'broken': 'corr:%s' % pid, 'mismatches': corr['mismatch'][:20], 'count': len(corr['mismatch'])})
            violations.append((rp, ' no-failing-input-found'))

    # 5. evidence
    evals = distinct = 0
    samples = []
    if corr and os.path.exists(corr['trace']):
        evals, distinct, samples = trace_summary(corr['trace'], cfg)
    ev = {
        'property_id': pid, 'tier': tier, 'seed': seed, 'level': 'proof',
        'coverage': {
            'obligations': len(lean['theorems']), 'discharged': len(lean['discharged']),
            'checker_cmd': 'cd lean && lake build Firefly.Props.%s && lake env lean Firefly/Audit/%s.lean%s' % (
                pid, pid, ' && lake env leanchecker Firefly.Props.%s' % pid if tier == 'thorough' else ''),
            'trusted_base': ['Lean 4.33.0 kernel', 'axioms: propext, Classical.choice, Quot.sound (audited per theorem)',
                             'statements in lean/Firefly/Props/%s.lean' % pid,
                             'fact generator (harness TestVerifFacts%s) and correspondence harness /verif/harness' % pid,
                             'Go toolchain; go test -overlay'] + cfg.get('trusted', []),
            'theorems': lean['theorems'], 'axioms': lean['axioms'],
            'evaluations': evals, 'distinct_nontrivial': distinct,
            'rule': cfg.get('rule', 'one evaluation = one op line of the harness trace; distinct = by hash of the line; non-trivial = matches /%s/' % cfg.get('nontrivial', '.')),
            'samples': samples or ['(no trace)'],
            'traces_validated_against_impl': (corr or {}).get('stats', {}).get('cases', 0) if corr else 0,
            'model_vs_impl_mismatches': len(corr['mismatch']) if corr else None,
            'oracle_failures': len(corr['propfail']) if corr else None,
            'known_findings_matched': len(known_lines),
            'distribution': (corr or {}).get('stats', {}),
            'generated_facts': 'lean/Firefly/Gen/%s.lean' % cfg.get('facts_name', pid), 'facts_changed_this_run': facts_changed,
            'notes': notes, 'leanchecker': lean.get('leanchecker'),
            'expression_anchors': {'spec': cfg.get('anchors'), 'lost': tie_lost, 'tie_lemmas_check': lean.get('tie_ok')},
        },
        'assumptions': cfg.get('assumptions', []),
        'wall_s': round(time.time() - t0, 2),
        'violations': len(violations),
    }
    # evidence/ describes runs on /repo; a run against a scratch tree (VERIF_REPO=…: seeded or benign changes) keeps
    # its record under build/ so that it never replaces the record of the tree of record
    evdir = os.path.join(ROOT, 'evidence') if os.path.realpath(REPO) == '/repo' else os.path.join(BUILD, 'evidence-scratch')
    os.makedirs(evdir, exist_ok=True)
    with open(os.path.join(evdir, '%s.json' % pid), 'w') as f:
        json.dump(ev, f, indent=1)

    if replay:
        # --replay: same seed and tier as the recorded run; report whether the recorded failure recurs
        rec = json.load(open(replay if os.path.isabs(replay) else os.path.join(ROOT, replay)))
        first = rec.get('first') or {}
        again = [l for l in (corr['propfail'] if corr else []) if (not first) or
                 (parse_kv(l).get('case') == first.get('case') and parse_kv(l).get('clause') == first.get('clause'))]
        if rec.get('kind') == 'propfail':
            print('REPLAY %s: case=%s clause=%s %s' % (replay, first.get('case'), first.get('clause'),
                  'REPRODUCED: ' + again[0][:300] if again else 'not reproduced on the current tree'))
        else:
            print('REPLAY %s (%s): %s' % (replay, rec.get('kind'), 'still failing' if violations else 'no longer failing'))
    for l in known_lines:
        print(l)
    st = (corr or {}).get('stats', {})
    print('%s tier=%s seed=%s theorems=%d/%d ops=%s mismatches=%s propfails=%s wall=%.1fs' % (
        pid, tier, seed, len(lean['discharged']), len(lean['theorems']), st.get('ops', evals),
        len(corr['mismatch']) if corr else '-', len(corr['propfail']) if corr else '-', time.time() - t0))
    if not os.environ.get('VERIF_KEEP'):
        shutil.rmtree(bdir, ignore_errors=True)
    if violations:
        for rp, suffix in violations[:1]:
            print('VIOLATION property=%s replay=%s%s' % (pid, rp, suffix))
        return 1
    return 0


def setup():
    os.makedirs(BUILD, exist_ok=True)
    with Lock():
        # root module importing the theorems of every property that is claimed (lib/ready.txt)
        ready = set(open(os.path.join(ROOT, 'lib', 'ready.txt')).read().split())
        mods = sorted(m for m in (os.path.basename(p)[:-5] for p in glob.glob(os.path.join(LEAN, 'Firefly/Props/C*.lean')))
                      if m in ready and m in PROPS)
        write_if_changed(os.path.join(LEAN, 'Firefly.lean'),
                         '-- GENERATED by ./check --setup\n' + ''.join('import Firefly.Props.%s\n' % m for m in mods))
        rc, out, err, dt = sh(['lake', 'build', 'Firefly'] + ['drv_%s' % m for m in mods], cwd=LEAN, timeout=7200)
    sys.stdout.write(out[-3000:] + err[-3000:])
    print('setup: lake build rc=%d in %.0fs' % (rc, dt))
    return 0 if rc == 0 else 1


def main(argv):
    if not argv or argv[0] in ('-h', '--help'):
        print(__doc__ or 'usage: check <Cxx> [--tier quick|thorough]')
        return 2
    if argv[0] == '--setup':
        return setup()
    if argv[0] == '--list':
        print(' '.join(sorted(PROPS)))
        return 0
    pid = argv[0]
    tier = os.environ.get('VERIF_TIER', 'quick')
    replay = None
    i = 1
    while i < len(argv):
        if argv[i] == '--tier':
            tier = argv[i + 1]; i += 2
        elif argv[i] == '--replay':
            replay = argv[i + 1]; i += 2
        else:
            i += 1
    if tier not in ('quick', 'thorough'):
        tier = 'quick'
    seed = int(os.environ.get('VERIF_SEED', '1') or 1)
    if replay:
        r = json.load(open(replay if os.path.isabs(replay) else os.path.join(ROOT, replay)))
        tier, seed = r.get('tier', tier), r.get('seed', seed)
    if pid not in PROPS:
        print('unknown property %s' % pid)
        return 2
    return check(pid, tier, seed, replay)
