#!/bin/bash
# seedin.sh <pid> <round-tag> <V1> <V2>: take a finished seeding agent's deliverables into seeded/ and test them
p=$1; tag=$2; shift 2
for v in "$@"; do
  mkdir -p /verif/seeded/$p-$v && cp /tmp/seed-$p$tag/SEED/$v/* /verif/seeded/$p-$v/ || exit 1
done
git -C /repo worktree remove --force /tmp/seed-$p$tag 2>/dev/null
for v in "$@"; do
  timeout 2400 python3 /verif/lib/seedtest.py /verif/seeded/$p-$v 2>&1 | tail -1 | python3 -c "
import sys,json
r=json.loads(sys.stdin.read()); print(r['seed'], 'clean_demo_ok=',r.get('demo_passes_clean'),'suite=',r.get('suite_passes_patched'),'demo_fails=',r.get('demo_fails_patched'),'DETECTED=',r.get('detected'),'by',r.get('by'), [l[-120:] for l in r.get('check_lines',[])][:1], str(r.get('detail'))[:150], r.get('suite_failures'))"
done
