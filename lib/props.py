"""Per-property configuration of /verif/check: one file lib/props.d/Cxx.py defining PROP."""
import os, glob, importlib.util

PROPS = {}
for _p in sorted(glob.glob(os.path.join(os.path.dirname(os.path.abspath(__file__)), 'props.d', 'C*.py'))):
    _spec = importlib.util.spec_from_file_location('verif_prop_' + os.path.basename(_p)[:-3], _p)
    _m = importlib.util.module_from_spec(_spec)
    try:
        _spec.loader.exec_module(_m)
        PROPS[os.path.basename(_p)[:-3]] = _m.PROP
    except Exception as _e:  # a broken configuration file breaks its own property only
        import sys as _sys
        _sys.stderr.write('lib/props.d/%s: %s\n' % (os.path.basename(_p), _e))

# properties deliberately not claimed, with the reason (none: every property has a logic core)
NOT_APPLICABLE = {}
