#!/bin/bash
# seedcross.sh <seed-dir> <pid>: run another property's check against a seeded change (scratch worktree, removed afterwards)
wt=$(mktemp -d /tmp/seedx-XXXX); rmdir $wt
git -C /repo worktree add --detach $wt >/dev/null 2>&1 || exit 1
git -C $wt apply /verif/$1/patch.diff || { git -C /repo worktree remove --force $wt; exit 1; }
VERIF_REPO=$wt /verif/check $2 2>&1 | grep -E "VIOLATION|tier=" 
git -C /repo worktree remove --force $wt; rm -rf $wt
VERIF_REPO=/repo /verif/check $2 2>&1 | tail -1
