#!/usr/bin/env python3
"""mk.py <round-tag> <ids…>: create scratch worktrees /tmp/seed-<id><tag> with TASK.md for seeding agents.
Round 1 uses variants A,B; later rounds C,D / E,F and list the ideas already used (from seeded/*/meta.json)."""
import json, subprocess, glob, sys, os
ROOT = os.path.dirname(os.path.dirname(os.path.dirname(os.path.abspath(__file__))))
props = {json.loads(l)['id']: json.loads(l) for l in open(os.path.join(ROOT, 'properties.jsonl'))}
base = open(os.path.join(ROOT, 'lib/seedtask/TEMPLATE.md')).read()
tag = sys.argv[1]
names = {'': ('A', 'B'), '2': ('C', 'D'), '3': ('E', 'F'), '4': ('G', 'H'), '5': ('I', 'J'), '6': ('K', 'L')}[tag]
def used(pid):
    out = []
    for d in sorted(glob.glob(os.path.join(ROOT, 'seeded/%s-*/meta.json' % pid))):
        m = json.load(open(d))
        out.append('- ' + str(m.get('what_it_breaks', ''))[:300].replace('\n', ' '))
    return '\n'.join(out)
for pid in sys.argv[2:]:
    p = props[pid]
    wt = '/tmp/seed-%s%s' % (pid, tag)
    t = base.replace('/tmp/seed-C07', wt)
    a = t.index('  C07 —'); b = t.index('TASK: produce')
    blk = '  %s — %s\n  Statement: %s\n  Quantifier: %s\n  Anchored in: %s\n\n' % (pid, p['title'], p['statement'], p['quantifier']['text'], ', '.join(p['anchors']['files']))
    t = t[:a] + blk + t[b:]
    t = t.replace('"property": "C07"', '"property": "%s"' % pid)
    if tag:
        x, y = names
        t = t.replace('call them A and B', 'call them %s and %s' % (x, y)).replace('{A,B}', '{%s,%s}' % (x, y)).replace('A and B should', '%s and %s should' % (x, y)).replace('summary of A and B', 'summary of %s and %s' % (x, y))
    t += "\n(Note: the kernel/goruntime test binary does not link on the unchanged tree under this toolchain; treat that as baseline.)\n"
    if tag == '3':
        t += "\nFor this round prefer sites that earlier rounds did not touch: callers and clients of the anchored mechanism in OTHER files or packages, data tables and constants, initialisation order, error / failure paths, type or width changes of fields, and behaviour that depends on state left behind by an earlier, unrelated call.\n"
    if tag == '4':
        t += "\nFor this round prefer, in this order: (1) a well-meant FIX or hardening commit that makes one case right and silently breaks another; (2) an interaction between two public operations or two configuration options that each work alone; (3) a change in a shared helper, constant, type or table in ANOTHER package that the anchored code relies on; (4) a wrong comparison/arithmetic that only shows for rare interior values (not the page/word/zero/max boundaries earlier rounds already used); (5) if the property quantifies over schedules or histories, an ordering or stale-state mistake. The change must still violate the property AS STATED for inputs inside its quantifier.\n"
    if tag == '5':
        t += "\nFor this round prefer mistakes that come from Go's own semantics or from re-use, in this order: (1) shadowing with := inside a block so an outer variable (error, cursor, count) is never updated; range-loop value copies mutated instead of the element; slice aliasing / append growing into a shared backing array; sign extension or truncation in an integer conversion; operator precedence (&^, <<, % against + -); defer evaluated too early or too late; (2) re-initialisation and re-use: a second call of an Init/Attach/Register/Parse/SetX function on an object that was already used, state that is reset only partially; (3) cleanup or restore steps skipped on an error or early-return path added by a refactor; (4) an off-by-one or wrong comparison on a path that only large or degenerate configurations reach (empty list, single element, maximum count, zero-sized geometry that the property's quantifier still includes). The change must still violate the property AS STATED for inputs inside its quantifier, compile, and pass the existing suite.\n"
    if tag == '6':
        t += "\nFor this round prefer, in this order: (1) ONE wrong entry or field in a data table or constant block the anchored code depends on (opcode/argument tables, font or logo descriptors, colour palettes, flag bit values, struct field order/size/padding of a memory-mapped layout, magic numbers, default settings) that only rare inputs select; (2) a change to an exported API's contract made in the callee while ONE caller (in another file or package) still relies on the old contract; (3) a guard added for robustness that is slightly too strong or too weak (rejects a legal edge value, or lets one illegal value through); (4) a performance shortcut (cache, fast path, early exit, batching) that is wrong for one reachable state. The change must still violate the property AS STATED for inputs inside its quantifier, compile, and pass the existing suite.\n"
    if tag:
        t += "\nThis is a LATER round. Ideas already used in earlier rounds — do something different in kind (different code site AND different mechanism), and prefer subtle ones: two cooperating edits that each look fine alone, state that only goes wrong after a specific multi-step history, or a boundary that only a rare configuration reaches:\n" + used(pid) + "\n"
    subprocess.run(['git', '-C', '/repo', 'worktree', 'add', '--detach', wt], capture_output=True)
    open(wt + '/TASK.md', 'w').write(t)
    print(wt)
