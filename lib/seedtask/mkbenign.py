#!/usr/bin/env python3
"""mkbenign.py <ids…>: scratch worktrees /tmp/benign-<id> with TASK.md asking for behaviour-PRESERVING changes (P, Q)."""
import json, subprocess, sys, os
ROOT = os.path.dirname(os.path.dirname(os.path.dirname(os.path.abspath(__file__))))
props = {json.loads(l)['id']: json.loads(l) for l in open(os.path.join(ROOT, 'properties.jsonl'))}
base = open(os.path.join(ROOT, 'lib/seedtask/BENIGN.md')).read()
import glob
tag = ''
args = sys.argv[1:]
if args and args[0].startswith('-'):
    tag = args[0][1:]; args = args[1:]
names = {'': ('P', 'Q'), '2': ('R', 'S'), '3': ('T', 'U')}[tag]
for pid in args:
    p = props[pid]
    wt = '/tmp/benign-%s%s' % (pid, tag)
    t = base.replace('/tmp/benign-C07', wt)
    blk = '  %s — %s\n  Statement: %s\n  Quantifier: %s\n  Anchored in: %s\n' % (pid, p['title'], p['statement'], p['quantifier']['text'], ', '.join(p['anchors']['files']))
    t = t.replace('  C07 —\n', blk).replace('"property": "C07"', '"property": "%s"' % pid)
    if tag:
        x, y = names
        t = t.replace('(call them P and Q)', '(call them %s and %s)' % (x, y)).replace('{P,Q}', '{%s,%s}' % (x, y)).replace('Each of P and Q', 'Each of %s and %s' % (x, y)).replace('summary of P and Q', 'summary of %s and %s' % (x, y))
        used = []
        for d in sorted(glob.glob(os.path.join(ROOT, 'benign/%s-*/meta.json' % pid))):
            used.append('- ' + str(json.load(open(d)).get('what_changed', ''))[:300].replace('\n', ' '))
        t += "\nThis is a LATER round. Edits already made in earlier rounds — do something different in kind AND at a different site (other functions of the anchored files, their callers in other packages, the data tables/constants they use, assembly if any): e.g. change a type alias or integer width where it provably cannot matter, split a function in two, merge two branches, replace recursion by iteration or vice versa, reorder struct fields / declarations / switch cases, turn a method into a function, replace a closure by a named function, introduce an interface-preserving wrapper, move code between files of the package, change an error message text that the property does not mention, replace `x == 0 || y == 0` style conditions by De Morgan equivalents, table-driven rewrite of an if-chain:\n" + '\n'.join(used) + "\n"
    subprocess.run(['git', '-C', '/repo', 'worktree', 'add', '--detach', wt], capture_output=True)
    open(wt + '/TASK.md', 'w').write(t)
    print(wt)
