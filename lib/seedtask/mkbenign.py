#!/usr/bin/env python3
"""mkbenign.py <ids…>: scratch worktrees /tmp/benign-<id> with TASK.md asking for behaviour-PRESERVING changes (P, Q)."""
import json, subprocess, sys, os
ROOT = os.path.dirname(os.path.dirname(os.path.dirname(os.path.abspath(__file__))))
props = {json.loads(l)['id']: json.loads(l) for l in open(os.path.join(ROOT, 'properties.jsonl'))}
base = open(os.path.join(ROOT, 'lib/seedtask/BENIGN.md')).read()
for pid in sys.argv[1:]:
    p = props[pid]
    wt = '/tmp/benign-%s' % pid
    t = base.replace('/tmp/benign-C07', wt)
    blk = '  %s — %s\n  Statement: %s\n  Quantifier: %s\n  Anchored in: %s\n' % (pid, p['title'], p['statement'], p['quantifier']['text'], ', '.join(p['anchors']['files']))
    t = t.replace('  C07 —\n', blk).replace('"property": "C07"', '"property": "%s"' % pid)
    subprocess.run(['git', '-C', '/repo', 'worktree', 'add', '--detach', wt], capture_output=True)
    open(wt + '/TASK.md', 'w').write(t)
    print(wt)
