"""C14 configuration for /verif/check."""
PROP = dict(
        module='kernel', pkg='device/acpi', pkgname='acpi', harness=['acpi/c14_test.go'],
        n=dict(quick=1000, thorough=20000),
        nontrivial=r'\| 1 ',
        rule='one evaluation = one hardware detection (probeForACPI + DriverInit of the real driver) on one generated '
             'firmware memory image, replayed through the Lean model and judged by the oracle; distinct = by hash of '
             '(image, observation); non-trivial = a root pointer was found',
        trusted=['fake physical memory of the harness: fixed-address anonymous mappings (physical == host address); '
                 'addresses outside them read as zero via the identityMapFn stub (header pointers translated back)',
                 'mapFn/unmapFn/identityMapFn are recording stubs that never fail (C04/C07 cover the real ones)'],
        assumptions=['search window and tables do not wrap around 2^64; root tables have Length >= 36',
                     'the DSDT pointer of a FADT is the 32-bit field, or the 64-bit field when the root table revision is >= 2 '
                     '(the rule the code implements; field offsets are those of the Go structs)'],
        level_text='Lean theorems for every firmware memory image, window and root table: rsdp_found / rsdp_decoys_never / '
                   'rsdp_none_missing (lowest checksum-valid root pointer on the 16-byte grid wins, 20- vs 36-byte checksum, '
                   '32- vs 64-bit root table by revision), registered_iff / registered_dom_iff / tableMap_keys_unique, '
                   'bad_checksum_skipped_not_fatal, root_bad_checksum_fatal, entry_width, maps_header_then_table, '
                   'checksum_is_byte_sum, window_is_bios_area; the model is tied to the Go code by regenerated constants '
                   '(window, stride, signatures, struct offsets, measured checksum lengths) and a differential run of '
                   'probeForACPI + DriverInit on generated images, judged by an oracle that uses the generator\'s ground truth.',
        level_note='Trusted: Lean kernel (+ propext, Classical.choice, Quot.sound), the theorem statements and Spec/Acpi.lean, '
                   'the harness and its fake physical memory (correspondence is differential testing on generated inputs, not a '
                   'proof about the Go code), map/unmap/identity-map seams scripted as never failing. The DSDT pointer rule '
                   '(32-bit field unless the root table revision is >= 2) and the FADT field offsets are taken from the code '
                   '(Go struct layout: Ext.Dsdt at 152, not the ACPI offset 140) and not judged.',
)
