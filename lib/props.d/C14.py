"""C14 configuration for /verif/check."""
PROP = dict(
        module='kernel', pkg='device/acpi', pkgname='acpi', harness=['acpi/c14_test.go'],
        n=dict(quick=300, thorough=12000),
        nontrivial=r'\| 1 ',
        rule='one evaluation = one hardware detection (probeForACPI + DriverInit of the real driver) on one generated '
             'firmware memory image, replayed through the Lean model and judged by the oracle; distinct = by hash of '
             '(image, observation); non-trivial = a root pointer was found',
        trusted=['fake physical memory of the harness: fixed-address anonymous mappings (physical == host address); '
                 'addresses outside them read as zero via the identityMapFn stub (header pointers translated back)',
                 'mapFn/unmapFn/identityMapFn are recording stubs that never fail (C04/C07 cover the real ones)'],
        assumptions=['search window and tables do not wrap around 2^64; root tables have Length >= 36',
                     'the DSDT pointer of a FADT is the 32-bit field, or the 64-bit field when the root table revision is >= 2 '
                     '(the rule the code implements; field offsets are those of the Go structs)'],
        level_text='TODO', level_note='TODO',
)
