"""C08 configuration for /verif/check."""
PROP = dict(
        module='kernel', pkg='sync', pkgname='sync', harness=['sync/c08_test.go'],
        # VERIF_N = number of seeded single-goroutine traces; the stress rounds use a fixed amount of work
        # per round (VERIF_C08_ITERS lock operations per goroutine, x5 and 6 repetitions in the thorough tier)
        n=dict(quick=300, thorough=3000),
        env={'VERIF_C08_ITERS': '20000'},
        timeout=dict(quick=900, thorough=3000),
        nontrivial=r'^(T \| 1|A [1-9]|AX [1-9]|AN|S |search)',
        rule='one evaluation = one line of the harness trace: a TryToAcquire/Release/Acquire call on a real Spinlock in a '
             'single goroutine (A k / AX k a: the lock is held and a yield hook releases it at its k-th call; AN: yieldFn=nil, '
             'released by a goroutine on another core), replayed through the Lean machine that executes the regenerated '
             'assembly, or one stress round S <goroutines> <ops each> <GOMAXPROCS,0=all> <try%> <seed> on the real lock, or one '
             'breadth-first model search; distinct = by hash of the line; non-trivial = a successful try, a contended '
             'acquire, a stress round or a search',
        trusted=['x86-TSO / real parallelism are outside the Lean model: XCHG is a full barrier and sync/atomic is sequentially '
                 'consistent (Go memory model, Intel SDM) are trusted; the stress run is the only evidence at that level',
                 'the 13-instruction ISA semantics in lean/Firefly/Model/Spin.lean (XCHGL atomic, CALL clobbers all registers)',
                 'the Plan 9 assembly / go/ast reader in harness/sync/c08_test.go (fails on anything it does not know)'],
        assumptions=['clients follow the lock contract: Release only while holding, no re-Acquire while holding',
                     'yieldFn, when set, does not touch the lock word (the harness hook that does is modelled as another thread)',
                     'sequentially consistent interleaving of atomic steps'],
        level_text='Lean theorems about the small-step machine running the REGENERATED archAcquireSpinlock instruction list and '
                   'the regenerated TryToAcquire/Release atomic-op bodies, for every number of threads, every schedule, every '
                   'lock address, attempts value and nil/non-nil yieldFn: mutex, lock_word, acquire_returns_only_when_free, '
                   'try_exact, release_reacquirable, handover_visible, deadlock_free (inductive invariant indexed by pc).',
        level_note='Proof is about the model (sequentially consistent interleaving). Hardware memory ordering (x86-TSO, true '
                   'parallelism) is outside the model — trusted: Go memory model / XCHG is a full barrier; covered only by the '
                   'multi-core stress run (holder counter + plain protected counter). Starvation freedom is not claimed. '
                   'Correspondence is differential testing of single-goroutine traces, not a proof about the binary.',
)
