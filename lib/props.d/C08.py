"""C08 configuration for /verif/check."""
PROP = dict(
        module='kernel', pkg='sync', pkgname='sync', harness=['sync/c08_test.go', 'sync/c08_clients_test.go'],
        # VERIF_N = number of seeded single-goroutine traces; the stress rounds use a fixed amount of work
        # per round (VERIF_C08_ITERS lock operations per goroutine, x5 and 6 repetitions in the thorough tier)
        n=dict(quick=300, thorough=3000),
        env={'VERIF_C08_ITERS': '20000'},
        timeout=dict(quick=900, thorough=3000),
        # the real clients of the lock (package mm/pmm) under concurrency; VERIF_N = operations per goroutine and round
        extra_runs=[dict(module='kernel', pkg='mm/pmm', pkgname='pmm', harness=['pmm/c08client_test.go'],
                         extra_overlay={'kernel/sync/zz_verif_c08_export.go': 'sync/c08_export.go'},
                         test='TestVerifC08Client', n=dict(quick=60000, thorough=200000))],
        nontrivial=r'^(T \| 1|A [1-9]|AX [1-9]|AN|S |CL |search)',
        rule='one evaluation = one line of the harness trace: a TryToAcquire/Release/Acquire call on a real Spinlock in a '
             'single goroutine (A k / AX k a: the lock is held and a yield hook releases it at its k-th call; AN: yieldFn=nil, '
             'released by a goroutine on another core), replayed through the Lean machine that executes the regenerated '
             'assembly, or one stress round S <goroutines> <ops each> <GOMAXPROCS,0=all> <try%> <seed> on the real lock, one round CL <goroutines> <ops each> <pool frames> <GOMAXPROCS,0=all> <seed> | <duplicates> <lost> <stuck> of the lock\'s real '
             'clients (AllocFrame/FreeFrame incl. frees of unmanaged frames, CAS ownership table), or one '
             'breadth-first model search; distinct = by hash of the line; non-trivial = a successful try, a contended '
             'acquire, a stress round, a client round or a search',
        trusted=['x86-TSO / real parallelism are outside the Lean model: XCHG is a full barrier and sync/atomic is sequentially '
                 'consistent (Go memory model, Intel SDM) are trusted; the stress run is the only evidence at that level',
                 'the 15-instruction ISA semantics in lean/Firefly/Model/Spin.lean (XCHGL with memory and LOCK-prefixed read-modify-write '
                 'atomic; XORL/DECL/CMPXCHGL on memory WITHOUT LOCK are a read step and a write step; CALL clobbers all registers)',
                 'the Plan 9 assembly / go/ast reader in harness/sync/c08_test.go (names the reason in Gen.C08.tieBroken on anything it does not know; '
                 'integer constants are resolved with go/types; its CFG re-lineariser is NOT trusted: the raw program, the canonical '
                 'program and the map between them are emitted and the kernel checks that they are the same graph)',
                 'reading of the certificate: equal graphs (JMP redirects edges, JZ/JNZ one branch node with swapped successors) give '
                 'the same machine behaviour up to JMP steps — by the semantics in Model/Spin.lean, not proved as a theorem',
                 'the client scanner harness/sync/c08_clients_test.go: syntactic (go/parser, no go/types) scan of every non-test file '
                 'under kernel/ for sync.Spinlock declarations and lock calls; fails on embedded/pointer/container locks, locks '
                 'passed as arguments, lock calls in closures/defer/go/switch, TryToAcquire in a client, nested clients',
                 'lock-discipline checker and its soundness proof are C09\'s (Model/Locked.lean, Proof/Locked.lean), imported read-only'],
        assumptions=['clients follow the lock contract (Release only while holding, no re-Acquire while holding): TIED for every client '
                     'found under kernel/ by the regenerated skeletons + clients_disciplined; assumed only for code outside kernel/',
                     'yieldFn, when set, does not touch the lock word (the harness hook that does is modelled as another thread)',
                     'sequentially consistent interleaving of atomic steps'],
        level_text='canonical_program_is_source_program (the layout-independent instruction list the proofs are about is, by a kernel-checked '
                   'graph certificate, the source program); tie_intact (the fact generator could translate every instruction, prefix, routine and client of the current source; '
                   'otherwise the generated file names the reason and nothing checks). Lean theorems about the small-step machine running the REGENERATED archAcquireSpinlock instruction list and '
                   'the regenerated TryToAcquire/Release atomic-op bodies, for every number of threads, every schedule, every '
                   'lock address, attempts value and nil/non-nil yieldFn: mutex, lock_word, acquire_returns_only_when_free, '
                   'try_exact, release_reacquirable, handover_visible, deadlock_free (inductive invariant indexed by pc); '
                   'spin_refines_abstract_lock (forward simulation to the abstract lock of Model/Locked.lean) and spin_lock_substitutes '
                   '(the lock-protected-object machine over the real lock program refines C09\'s Locked machine, so its safety theorems transfer); '
                   'clients_disciplined (the REGENERATED lock skeleton of every function under kernel/ that uses a sync.Spinlock takes the '
                   'lock once, releases it exactly once on every return path and never releases un-acquired — the client shape the '
                   'composed machine accepts). Plus a multi-core stress of the lock and of its real clients.',
        level_note='Proof is about the model (sequentially consistent interleaving). Hardware memory ordering (x86-TSO, true '
                   'parallelism) is outside the model — trusted: Go memory model / XCHG is a full barrier; covered only by the '
                   'multi-core stress run (holder counter + plain protected counter). Starvation freedom is not claimed. '
                   'Correspondence is differential testing of single-goroutine traces, not a proof about the binary.',
)
