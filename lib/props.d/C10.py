"""C10 configuration for /verif/check."""
PROP = dict(
        module='kernel', pkg='multiboot', pkgname='multiboot', harness=['multiboot/c10_test.go'],
        n=dict(quick=300, thorough=12000),
        nontrivial=r'^[MFCE] .*\| (done|stop|ok) (?!nil|0$|0 )',
        rule='placeholder',
        trusted=[], assumptions=[], level_text='placeholder', level_note='placeholder',
)
