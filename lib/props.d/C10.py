"""C10 configuration for /verif/check."""
PROP = dict(
        module='kernel', pkg='multiboot', pkgname='multiboot', harness=['multiboot/c10_test.go'],
        n=dict(quick=1500, thorough=25000),
        anchors='C10.json', expr_imports=['Firefly.Gen.C10'],
        # clients that receive pointers into the block: enumerate, run the real client, enumerate again
        extra_runs=[dict(module='kernel', pkg='mm/pmm', pkgname='pmm', harness=['pmm/pmm_test.go', 'pmm/c10pmm_test.go'],
                         test='TestVerifC10Pmm', n=dict(quick=40, thorough=1500)),
                    dict(module='kernel', pkg='device/video/console', pkgname='console', harness=['console/c10fb_test.go'],
                         test='TestVerifC10Fb', n=dict(quick=30, thorough=600))],
        nontrivial=r'^(M \d+ \| (done|stop) [1-9]|F \| ok \d|C \| ok [1-9]|E \| done [1-9]|T \d+ \| ok \d)',
        rule='one evaluation = one call of the real findTagByType / VisitMemRegions / GetFramebufferInfo(+field reads) / '
             'GetBootCmdLine / VisitElfSections (or a dump of the block after the calls) on a generated multiboot block placed '
             'directly before a PROT_NONE page, replayed through the Lean model; the oracle compares the real observation with '
             'the expectation computed from the generator-level description of the block (never from the model); '
             'distinct = by hash of the (op, observation) line; non-trivial = the call found its tag and reported at least one '
             'region / a framebuffer / a key / a section; client runs (packages pmm and console) enumerate the memory map / re-read the '
             'framebuffer description before and after the real boot allocator, pmm.Init, the console probes, DriverInit and console '
             'operations ran on the same block (lines #X <step>), the oracle clause stays "equals what the block encodes"',
        trusted=['guard pages (mmap + mprotect PROT_NONE) and debug.SetPanicOnFault turn an out-of-block access of the Go code into an '
                 'observation; accesses *before* the block start are only caught when they leave the 16-page arena',
                 'the Go generator c10Encode and the Lean encode are compared byte for byte on every generated block',
                 'strings.Fields / strings.Split are modelled (fieldsGo / splitEq incl. the multi-byte white-space runes) and '
                 'compared on every generated command line, not verified'],
        assumptions=['the block and the string table are the only memory the decoder may touch (model: any other access = fault)',
                     'well-formed block: entry size >= 24, tag size + 7 < 2^31, known tag numbers used only by their own kind, '
                     'ELF entry size 64 and < 65536 sections, string table NUL-terminated (predicate MBSpec.wf, checked on every generated case)',
                     'single-threaded use; cmdLineKV cache reset between cases (the cache itself is not part of the property)'],
        level_text='Lean theorems for every well-formed block (any tag order, duplicates, unknown tags, odd sizes/padding, entry size >= 24, '
                   'any entry count, all 32-bit types): first_tag_wins(+_order), absent_is_empty, roundtrip_memmap (with type normalisation), '
                   'early_stop, types_normalised, writes_confined, roundtrip_framebuffer, roundtrip_elf, roundtrip_cmdline (all white space strings.Fields '
                   'recognises, words of arbitrary bytes), reads_in_bounds; the model is '
                   'tied to the Go code by regenerated constants/struct offsets, by the pointer/size/stride/type-test expressions regenerated from '
                   'the source (tools/exprgen, Tie/C10.lean) and by a differential run on generated blocks behind guard pages.',
        level_note='All clauses of the statement are proved for the model on every well-formed block. Trusted: Lean kernel (+ propext, '
                   'Classical.choice, Quot.sound), the theorem statements and the spec (encode/wf/exp*), the harness (correspondence is '
                   'differential testing on generated inputs, not a proof about the Go code), strings.Fields/Split modelled (byte-level model of '
                   'UTF-8 decoding + unicode.IsSpace, compared with the real functions on valid and invalid UTF-8). exprgen renders int32(x) '
                   'as a zero-extended truncation, so the scan-step tie lemma carries the hypothesis (size+7) mod 2^32 < 2^31.',
)
