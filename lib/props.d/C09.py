"""C09 configuration for /verif/check."""
PROP = dict(
        module='kernel', pkg='mm/pmm', pkgname='pmm', harness=['pmm/c09_test.go'],
        extra_overlay={'kernel/sync/zz_verif_c09_export.go': 'pmm/c09_sync_export.go'},
        # VERIF_N = number of seeded rounds after the 30 deterministic boundary rounds; every worker performs a fixed
        # number of operations per round (VERIF_C09_OPS), so the verdict never depends on machine speed
        n=dict(quick=20, thorough=400),
        env={'VERIF_C09_OPS': '4000'},
        timeout=dict(quick=900, thorough=3000),
        nontrivial=r'^(round |a \| \d|f \d+ \| [012])',
        rule='TODO',
        trusted=[],
        assumptions=[],
        level_text='TODO',
        level_note='TODO',
)
