"""C09 configuration for /verif/check."""
PROP = dict(
        module='kernel', pkg='mm/pmm', pkgname='pmm', harness=['pmm/c09_test.go'],
        # the spinlock's yieldFn lives in package sync: rounds run with nil (the kernel's configuration) and runtime.Gosched
        extra_overlay={'kernel/sync/zz_verif_c09_export.go': 'pmm/c09_sync_export.go'},
        # VERIF_N = number of seeded rounds after the 30 deterministic boundary rounds. Every worker performs a fixed number
        # of operations per round (VERIF_C09_OPS, x4 in the thorough tier), so the verdict never depends on machine speed;
        # the watchdog (VERIF_C09_STUCK_S, default 120 s without any worker completing an operation) only turns a hang
        # into an observation.
        n=dict(quick=20, thorough=300),
        env={'VERIF_C09_OPS': '30000'},
        timeout=dict(quick=900, thorough=3000),
        # targeted search after a broken tie/proof in the quick tier: three times the seeded rounds of a quick run at the
        # thorough operation count (x4), instead of the whole thorough stress (~3 min)
        search_n=60, search_env={'VERIF_C09_OPS': '10000'},
        nontrivial=r'^(round |a \| \d|f \d+ \| [012])',
        rule='one evaluation = one line of the harness trace: a sequential AllocFrame/FreeFrame/stats call on the real '
             'BitmapAllocator replayed through the Lean pmm model (a | frame, f x | code, s | dump), a lock-leak probe after '
             'each of them (lk | 0/1), or one multi-core stress round (round <workers> <ops each> <yield mode> <GOMAXPROCS> p '
             '<pool sizes in memory-map order> o <address rank of each pool; half of the rounds list the pools in non-ascending order> | <duplicates> <lost> <stuck> <totals_ok> t <total> <reserved> <free at start> <held at end> '
             '<drained> c <counters>) judged by the oracle from the raw counters and the model state; distinct = by hash of '
             'the line; non-trivial = a stress round, a successful allocation or a free',
        trusted=['mutual exclusion of the real spinlock (C08) and sequentially consistent interleaving of lock-protected code '
                 '(Go memory model, DRF-SC); hardware memory ordering and true parallelism are covered by the stress run only',
                 'the skeleton extractor in harness/pmm/c09_test.go (go/parser over bitmap_allocator.go; fails on any AST node, '
                 'field or call it does not understand); its classification of allocator state: freeCount, reservedPages, '
                 'totalPages and bitmap words are lock-protected, pools/startFrame/endFrame/freeBitmap headers are init-only '
                 '(checked: written only by functions reachable from Init and unreachable from AllocFrame/FreeFrame in the generated call graph)',
                 'the code between Acquire and Release computes Pmm.alloc / Pmm.free: differential testing (C01/C03 and the '
                 'sequential part of every C09 round)',
                 'vmm seams (reserveRegionFn/mapFn) scripted, multiboot block built by the harness; export shim '
                 'harness/pmm/c09_sync_export.go sets sync.yieldFn'],
        assumptions=['the allocator is initialised (Inv, established by Init: C03) before it is shared',
                     'callers free only frames they hold (the FreeFrame contract of C01/C03)',
                     'sequentially consistent interleaving of atomic micro-steps inside critical sections'],
        level_text='Lean theorems, for any number of threads and every schedule: disciplined_sound + skeletons_disciplined (the '
                   'lock-discipline skeletons of AllocFrame/FreeFrame REGENERATED from the Go source take the lock exactly once, '
                   'touch allocator state only while holding it and release it on every return path, for any loop iteration '
                   'counts), init_only_state, linearizable (every reachable state of the generic lock-protected-object machine is '
                   'explained by the sequential run of the operations in acquire order), and for the pmm bitmap model with '
                   'callers that free only what they hold: no_duplicate, freed_is_reusable, totals_after_quiescence, no_deadlock. '
                   'Plus a multi-core stress run of the real code (ownership table with CAS, watchdog, quiescence accounting, '
                   'drain) and differential replay of sequential histories.',
        level_note='Proof is about the model: a lock that admits one holder (C08, trusted here), sequentially consistent '
                   'interleaving, Pmm.alloc/Pmm.free as critical-section bodies. Hardware memory ordering / true parallelism are '
                   'outside the model (trusted: C08 mutual exclusion, Go memory model DRF-SC) and are covered only by the stress '
                   'run. "No call blocks forever" is proved as deadlock freedom + finite critical sections, not starvation '
                   'freedom. The tie of the skeletons is syntactic (go/parser), the tie of the bodies is differential testing.',
)
