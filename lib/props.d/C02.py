PROP = dict(
    module='kernel', pkg='mm/pmm', pkgname='pmm', harness=['pmm/pmm_test.go', 'pmm/c07pmm_test.go'], facts_name='Pmm',
    anchors='Pmm.json', expr_name='PmmExpr', expr_imports=['Firefly.Gen.Pmm'], tie_name='Pmm',
    n=dict(quick=300, thorough=6000),
    nontrivial=r'^(a|balloc|f \d+) \| \d',
    rule='one evaluation = one operation on the real pmm code (boot alloc, init, AllocFrame, FreeFrame, stats) replayed through '
         'the Lean model; distinct = by hash of (op, observation); non-trivial = an allocation that returned a frame or a free',
    trusted=['reserveRegionFn/mapFn are scripted (vmm is covered by C04/C07)', 'multiboot block built by the harness (decoder covered by C10)'],
    assumptions=['memory map sorted, non-overlapping, addr+len < 2^64, fewer than 2^32 frames', 'kernel image page-aligned start, inside one available region'],
    level_text='Lean theorems: every early allocation from a state reached by successful allocations returns a frame wholly inside an available region, outside the kernel image, strictly above the previous one (boot_sound, boot_strictly_ascending), OOM returns no frame (boot_oom_is_safe), replay from the reset state reproduces the frames (replay_exact), for every sorted map and kernel placement. Differential run of the real BootMemAllocator to exhaustion + replay on generated maps.',
    level_note='Trusted: Lean kernel (+ 3 standard axioms), statements, harness; addresses as Nat (addr+len < 2^64 assumed); multiboot decoding covered by C10.',
)
