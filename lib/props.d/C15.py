"""C15 configuration for /verif/check."""
PROP = dict(
        module='kernel', pkg='kfmt', pkgname='kfmt', harness=['kfmt/c15_test.go', 'kfmt/c15_callsite_test.go'],
        n=dict(quick=1500, thorough=60000),
        anchors='C15.json', expr_imports=['Firefly.Gen.C15'],
        nontrivial=r'^F .*\| ok [1-9]',
        rule='one evaluation = one Fprintf call on the real code captured through an io.Writer (F line: replayed through the '
             'Lean model, and the bytes written compared with the spec render) or one testing.AllocsPerRun measurement of the '
             'same call with pre-boxed arguments and a sink that stores nothing (A line) or of a call-site-shaped caller (S line); distinct = by hash of the line; '
             'non-trivial = the call wrote at least one chunk',
        trusted=['testing.AllocsPerRun / runtime.MemStats for the allocation clause'],
        assumptions=['64-bit Go int (amd64)', 'sequential use of the package-level scratch buffers numFmtBuf/singleByte',
                     'string and slice lengths fit a Go int; string widths stay in the property domain 0..10^6 '
                     '(the padding count padLen-len(s) wraps in a Go int: theorem wrapped_string_width_quirk)'],
        level_text='Lean theorems over the model of fmt.go (index-level Fprintf loop with checked format[i]/args[i]/numFmtBuf[i], proved '
                   'equal to a list-traversal scanner: index_model_refines) hold for every format, argument list and scratch-buffer content: '
                   'fmtInt_in_bounds (every checked index of the in-place algorithm is inside numFmtBuf for all 2^64 magnitudes, '
                   'both signs, every kind, base and width), never_panics (arbitrary format bytes and arguments, width '
                   'accumulated with int wrap-around), exact (bytes written = spec render for every format of the supported '
                   'grammar, incl. missing/surplus/wrong-type markers), magnitude (digit string denotes |v|, valid digits, no '
                   'leading zero), bounded/padded (min(width,31) <= length <= maxBufSize). maxBufSize, len(numFmtBuf) and the '
                   'marker strings are regenerated from the compiled code, and the clamp, negation, digit extraction, digit characters, sign-append '
                   'test, width accumulation and string pad-length expressions are regenerated from the source (tools/exprgen) and proved equal '
                   'to the model terms (Tie/C15.lean); model and spec are compared with the real Fprintf '
                   'on grammar-directed and random formats.',
        level_note='Partial: the "no heap allocation" clause is MEASURED, not proved (it is a property of the Go 1.23 compiler\'s '
                   'escape analysis): testing.AllocsPerRun over every generated case whose output is <= 4096 bytes, pre-boxed '
                   'arguments, non-allocating sink (A lines), plus 13 call-site-shaped callers (S lines: noinline functions that build their '
                   'arguments from run-time values as kernel callers do - []byte slicing a local array of 1/7/32/33/100 bytes incl. the '
                   'in-tree EISA-id shape, string(b) of a local of <= 32 bytes, small integers of every kind, large local '
                   'uint64/uintptr/negative values, bools, a mix, no arguments - each through Fprintf with a non-allocating writer and '
                   'through Printf into the early ring buffer), which see allocations the formatter causes in its CALLER when its '
                   'parameters leak; all measure 0 on the unchanged tree under go1.23. Left out because the allocation is the '
                   'caller\'s own: string(b) of more than 32 bytes (measured 1: the conversion needs a heap buffer). '
                   'A non-zero count is an oracle failure (clause=no-alloc). Trusted: Lean kernel '
                   '(+ propext, Classical.choice, Quot.sound), the theorem statements, the harness (correspondence is differential '
                   'testing on generated inputs, not a proof about the Go code).',
)
