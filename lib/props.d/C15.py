"""C15 configuration for /verif/check."""
PROP = dict(
        module='kernel', pkg='kfmt', pkgname='kfmt', harness=['kfmt/c15_test.go'],
        n=dict(quick=1500, thorough=60000),
        nontrivial=r'^F .*\| ok [1-9]',
        rule='one evaluation = one Fprintf call on the real code captured through an io.Writer (F line: replayed through the '
             'Lean model and compared with the spec render) or one testing.AllocsPerRun measurement of the same call (A line); '
             'distinct = by hash of the line; non-trivial = the call wrote at least one chunk',
        trusted=[],
        assumptions=[],
        level_text='',
        level_note='',
)
