"""C19 configuration for /verif/check."""
PROP = dict(
        module='kernel', pkg='device/video/console', pkgname='console', harness=['console/c19_test.go'],
        n=dict(quick=300, thorough=6000),
        nontrivial=r'\| .*\d:[0-9a-f]',
        rule='placeholder',
        trusted=[], assumptions=[],
        level_text='placeholder', level_note='placeholder',
)
