"""C19 configuration for /verif/check."""
PROP = dict(
        module='kernel', pkg='device/video/console', pkgname='console', harness=['console/c19_test.go'],
        n=dict(quick=300, thorough=3000),
        anchors='C19.json', expr_imports=['Firefly.Gen.C19'],
        extra_runs=[dict(module='kernel', pkg='hal', pkgname='hal', harness=['hal/c19hal_test.go'],
                         extra_overlay={'kernel/device/video/console/zz_verif_c19_export.go': 'console/c19_export.go',
                                        'kernel/multiboot/zz_verif_c19_export.go': 'multiboot/c19_export.go'},
                         test='TestVerifC19Hal', n=dict(quick=20, thorough=100))],
        nontrivial=r'^[tv][wfs] .*\| .*\d:[0-9a-f]',
        rule='one evaluation = one trace line: a Write / Fill / Scroll (or SetFont, SetLogo, packColor, fbOffset, checksum) '
             'call on the real VgaTextConsole / VesaFbConsole whose framebuffer lies inside a pattern-filled host buffer, '
             'followed by a full diff of the host buffer; the Lean driver re-executes the call on the model and evaluates '
             'the pointwise specification on the implementation\'s framebuffer; distinct = by hash of (op, diff); '
             'non-trivial = a write/fill/scroll that changed at least one framebuffer cell or byte. A second harness (package hal, '
             'TestVerifC19Hal) boots command-line variants through the real hal.onConsoleInit on the real consoles and replays '
             'the geometry it configured (oracle clause grid-fits) plus edge operations through the same driver',
        trusted=['in-package harness builds the consoles through DriverInit with mapRegionFn pointing into a Go byte slice '
                 '(Go bounds checks make every out-of-range store a panic, observed as `panic`)',
                 'SetLogo\'s pixel drawing and palette remapping are not modelled (palette is taken from the trace; the oracle '
                 'only checks that the drawing stays inside the logo rows and off the padding)',
                 'SetPaletteColor/replace16/replace24 are outside the property and not exercised',
                 'HAL run: overlay export shims in packages console and multiboot (DriverInit seams, state accessors, command-line cache reset)'],
        assumptions=['geometry domain of the theorems: grid of >= 1 cell, pitch >= width*bytesPerPixel, (height+1)*pitch+4 < 2^32, '
                     'depth in {8,15,16,24,32}, font glyphs >= 1x1, 256-entry palette; text: cols*rows < 2^31',
                     'SetLogo is called before SetFont (documented API contract)'],
        level_text='Lean theorems for all geometries in the stated domain and all 32-bit arguments, for both consoles: '
                   'write_frame (text cell / glyph bits -> packed fg, rest -> packed bg, all five depths), fill_clip, scroll_exact, '
                   'no_oob, padding and logo rows untouched, pack_color/pack_component, and refines_grid: both consoles refine the '
                   'abstract cell-grid console of C18 (Spec/Term.lean) for CallOk calls and whole call logs (models with checked framebuffer access and '
                   '32-bit wrap-around arithmetic, specs pointwise in unbounded arithmetic). Tied to the Go code by regenerated '
                   'constants/font metadata and a differential run with full framebuffer diffs, guard bytes and row padding.',
        level_note='Trusted: Lean kernel (+ propext, Classical.choice, Quot.sound), the theorem statements and Spec/Console.lean, '
                   'the harness (correspondence is differential testing on generated inputs, not a proof about the Go code); '
                   'SetLogo drawing is checked by the oracle only (containment), not modelled. '
                   'refines_grid for pixel Scroll needs a text area of whole glyph rows (otherwise only the moved lines are claimed: '
                   'pix_refines_grid_scroll_moved) and a blank space glyph (generated fact for the shipped fonts). '
                   'D9, D10, D11 were confirmed by the oracle on the unrepaired tree and repaired in /repo.',
)
