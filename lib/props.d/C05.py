"""C05 configuration for /verif/check."""
PROP = dict(
        module='kernel', pkg='mm/vmm', pkgname='vmm', harness=['vmm/swmmu_test.go', 'vmm/c04_test.go', 'vmm/c05_test.go'],
        n=dict(quick=200, thorough=3000),
        nontrivial=r'^setup [^|]*\| 0 ',
        rule='one evaluation = one op line of the harness trace (setupPDTForKernel on the real code over the software MMU with a '
             'generated ELF section table and early reservations made with the real EarlyReserveRegion/MapRegion, plus the set-up '
             'and probe calls), replayed through the Lean model with a full physical-memory comparison; distinct = by hash of '
             'the trace line; non-trivial = a setupPDTForKernel call that succeeded (its whole new address space is then '
             'compared with the expected set of leaf entries)',
        trusted=['software MMU of the harness (harness/vmm/swmmu_test.go)',
                 'visitElfSectionsFn is stubbed with the generated section table (multiboot decoding is C10)'],
        assumptions=['sections do not share a page with one another (linker script), size >= 1, addr+size does not wrap',
                     'every page of the early reservations is mapped when setupPDTForKernel runs',
                     'the frame allocator returns frames that are RAM and not in use; the boot root table is identity mapped'],
        level_text='Lean theorems over the executable model of setupPDTForKernel, down to the address space the hardware sees. setup_refines: '
                   'from every well-formed boot address space (guard not armed, temporary mapping not refused, section and reserved '
                   'pages outside the recursive slot) the call never faults; on success CR3 is the first allocated frame P (= kernelPDT), '
                   'P\'s tables form a well-formed tree, every reserved page was mapped at boot, and the new address space is exactly '
                   'the empty one with the mapping requests (sections, then reservations) applied in order - through PDT.Init, the '
                   'swap/restore of entry 511 around every PDT.Map, any number of new table levels; on failure CR3 is unchanged and the '
                   'error (allocator, unmapped reservation) is returned. sections_exact: page i of every section with addr >= off is '
                   'mapped by frame ((addr-off)>>12)+i with sectionFlags; section_flags_wx: those flags are Present, RW iff writable, NX '
                   'iff not executable, never User; nothing_else: an address on no requested page is unmapped (sections below the '
                   'offset contribute no request: below_offset_no_request); reservations_kept: every reserved page keeps its boot '
                   'frame, Present|RW; section_page_count (last page not missed); activated; section_requests_exact; facts_current. '
                   'The oracle evaluates the same statement on the real code: after every successful call the complete set of leaf '
                   'entries of the activated root is compared with the expected set.',
        level_note='Proved for the model in all cases (any number of sections and reservations, allocator failure anywhere). Hypotheses of '
                   'sections_exact / reservations_kept: no two requested pages coincide (the linker script\'s layout; a decidable '
                   'predicate on the request list) - the oracle checks the same domain. The tie between model and Go code is the '
                   'regenerated constants plus the differential run (model = code on every generated section table, full memory '
                   'comparison); VisitElfSections is stubbed (multiboot decoding is C10). Trusted: Lean kernel (+ propext, '
                   'Classical.choice, Quot.sound), the theorem statements, the harness MMU emulation; differential testing is not a '
                   'proof about the Go code.',
)
