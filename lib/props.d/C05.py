"""C05 configuration for /verif/check."""
PROP = dict(
        module='kernel', pkg='mm/vmm', pkgname='vmm', harness=['vmm/swmmu_test.go', 'vmm/c04_test.go', 'vmm/c05_test.go'],
        n=dict(quick=200, thorough=3000),
        nontrivial=r'^setup [^|]*\| 0 ',
        rule='one evaluation = one op line of the harness trace (setupPDTForKernel on the real code over the software MMU with a '
             'generated ELF section table and early reservations made with the real EarlyReserveRegion/MapRegion, plus the set-up '
             'and probe calls), replayed through the Lean model with a full physical-memory comparison; distinct = by hash of '
             'the trace line; non-trivial = a setupPDTForKernel call that succeeded (its whole new address space is then '
             'compared with the expected set of leaf entries)',
        trusted=['software MMU of the harness (harness/vmm/swmmu_test.go)',
                 'visitElfSectionsFn is stubbed with the generated section table (multiboot decoding is C10)'],
        assumptions=['sections do not share a page with one another (linker script), size >= 1, addr+size does not wrap',
                     'every page of the early reservations is mapped when setupPDTForKernel runs',
                     'the frame allocator returns frames that are RAM and not in use; the boot root table is identity mapped'],
        level_text='Lean theorems over the executable model of setupPDTForKernel: section_flags_wx (for every ELF flag word the derived '
                   'page flags have Present, RW iff writable, NX iff not executable, never User, nothing else), sections_exact_partial '
                   '(for every section list, offset, state and mapping function the visitor issues exactly the mapping requests '
                   'pageOf(addr)+i -> ((addr-off)>>12)+i, i < pageCount, with those flags, in order, stopping at the first error), '
                   'nothing_else_partial (sections below the offset contribute no request), section_page_count (the last page is not '
                   'missed, unaligned starts included), activated (on success CR3 = the new root, the first allocated frame), '
                   'facts_current. The address-space level statement is evaluated by the oracle on the real code: after every '
                   'successful call the complete set of leaf entries of the activated root is compared with the expected set.',
        level_note='Partial: the theorems are at the level of mapping requests; that each request on the (inactive, freshly built) table '
                   'has the effect C04 states - including creation of new table levels - and that reservations are copied with their '
                   'old frames, is NOT proved in Lean; it is carried by the correspondence run (model = code, full memory comparison) '
                   'and the oracle clauses sections-exact, w-xor-x, nothing-else, reservations-kept, activated, error-paths '
                   '(allocator failure at every point, failing temporary mapping, unmapped reservation). Trusted: Lean kernel '
                   '(+ propext, Classical.choice, Quot.sound), the theorem statements, the harness MMU emulation; differential '
                   'testing is not a proof about the Go code.',
)
