"""C07 configuration for /verif/check."""
PROP = dict(
        module='kernel', pkg='mm/vmm', pkgname='vmm', harness=['vmm/c07_test.go', 'vmm/c07_facts_test.go'],
        n=dict(quick=400, thorough=20000),
    extra_runs=[dict(module='kernel', pkg='mm/vmm', pkgname='vmm', harness=['vmm/swmmu_test.go', 'vmm/c04_test.go', 'vmm/c07setup_test.go'],
                     test='TestVerifC07Setup', n=dict(quick=60, thorough=2000)),
                dict(module='kernel', pkg='mm/pmm', pkgname='pmm', harness=['pmm/pmm_test.go', 'pmm/c07pmm_test.go'],
                     test='TestVerifC07Pmm', n=dict(quick=100, thorough=3000)),
                dict(module='kernel', pkg='goruntime/gortcopy', pkgname='gortcopy', harness=['gortcopy/c07gort_test.go'],
                     srccopy=dict(src='kernel/goruntime/bootstrap.go', preamble='gortcopy/preamble.go.txt',
                                  decls=['mapFn', 'earlyReserveRegionFn', 'memsetFn', 'errRegionSizeOverflow', 'sysReserve', 'sysMap', 'sysAlloc']),
                     test='TestVerifC07Gort', n=dict(quick=100, thorough=3000))],
    anchors='C07.json', expr_imports=['Firefly.Gen.C07'],
        nontrivial=r'\| 1 ',
        rule='one evaluation = one EarlyReserveRegion / MapRegion / IdentityMapRegion call on the real code, '
             'replayed through the Lean model; distinct = by hash of (op, observation); non-trivial = the call succeeded',
        trusted=['mapFn is scripted by the harness (C04 covers Map itself)'],
        assumptions=['sequential use (early boot is single-threaded)'],
        level_text='Lean theorems over BitVec 64 (fits_iff, reserve_ok, reserve_fail_pure, disjoint_history, no_overlap, '
                   'region_maps_exact_pages, region_fail_pure, gort_reserve_ok, gort_map_never_writable) hold for every cursor, size and request '
                   'history; single_cursor_writer (regenerated AST fact: only EarlyReserveRegion writes the cursor). The model is tied to the Go '
                   'code by regenerated constants, 12 tie lemmas over regenerated expressions (tools/exprgen) and differential runs of '
                   'EarlyReserveRegion/MapRegion/IdentityMapRegion, of reservation histories across the real setupPDTForKernel, of the '
                   'bitmap allocator as a client and of a verbatim source copy of the goruntime hooks.',
        level_note='Trusted: Lean kernel (+ propext, Classical.choice, Quot.sound), the theorem statements, the harness '
                   '(correspondence is differential testing on generated inputs, not a proof about the Go code), mapFn scripted.',
)
