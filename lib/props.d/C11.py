"""C11 configuration for /verif/check."""
PROP = dict(
        module='kernel', pkg='device/acpi/aml', pkgname='aml', harness=['aml/c11_test.go', 'aml/amlcommon_test.go'],
        n=dict(quick=400, thorough=6000),
        timeout=dict(quick=900, thorough=5400),
        nontrivial=r'^T .*\| ok ',
        rule='one evaluation = one table (1-3 per case) of a program generated from the grammar subset (Lean type AmlProg.Obj), '
             'encoded by the Go twin of the Lean encoder (compared byte for byte), parsed by the real ParseAML in a child process; '
             'the dumped object pool is compared with the Lean parser model and nsOf(pool) with the executable specification '
             'namespaceOf(program): absolute path -> kind, arguments and values of every named object, and (target, attached '
             'argument count) of every method invocation; distinct = by hash of the line; non-trivial = the table parsed',
        trusted=['the generator only emits programs that are well-scoped by construction (namespaceOf reports errors otherwise, '
                 'which the driver prints as a MISMATCH, never as a pass)',
                 'the namespace is read from the dumped object pool (links, names, values), not through Find/ObjectAt (C13 covers Find)',
                 'statement order inside method bodies is not part of the namespace and is not compared with the program'],
        assumptions=['grammar subset: Name/Scope/Device/Method/OpRegion/Field/Mutex/Event/Processor/PowerResource/ThermalZone, '
                     'integer/string/buffer/package data, Store/Return/Add/If/While/calls with 0-7 arguments (forward, backward, nested), '
                     'all name forms, every PkgLength width, 1-3 tables'],
        level_text='proof (partial). Lean theorems for all inputs: pkglen_roundtrip (all four PkgLength encodings decode to the encoded value '
                   'and advance exactly), pkg_roundtrip (the package end the parser computes from encPkg is exactly the end of the encoded body), const_roundtrip (integer constants likewise), name_roundtrip (every name string the encoder can produce - root prefix, any number of ^, '
                   'NullName / NameSeg / DualNamePath / MultiNamePath with 3..255 segments - is read back by parseNameString: success, exact advance, the slice covers exactly '
                   'the encoded bytes without the NullName terminator), string_roundtrip (every ASCII string with its terminator likewise), const_object_roundtrip / name_object_roundtrip / string_object_roundtrip (one level up: from any well-formed parser state parseSimpleArg returns a NEW object that carries exactly the encoded constant / name path / string, with the right opcode, and advances by exactly the encoded length), name_decl_first_pass (declaration level: on the bytes 08 <NameString> the first pass creates a NEW Name object as the last child of the innermost open scope block with a single name-path argument carrying exactly the written path, reader right behind the name, scope stack unchanged, older objects keep their parents, pool well-formed), namespace_is_tree (spec side: for EVERY program namespaceOf declares no path twice and every path has its parent - the oracle compares against a well-formed namespace), facts_agree (the generated tables this run saw are the '
                   'ones the parser model is built on); kernel-evaluated witness theorems on the parser model for the deterministic boundary '
                   'programs: d6_counterexample, name_caret_counterexample, call_arg_expression_counterexample, '
                   'if_empty_body_counterexample, while_nested_block_counterexample (the property is false there: known findings), '
                   'witnesses_well_scoped, repaired_and_positive_witnesses (Scope(\\), call operand inside While, forward/backward/nested '
                   'calls: model namespace = namespaceOf). The lexical layer shared with C12 (reader_inv, lex_slices_in_table, '
                   'opcode_table_sane) and C12.slices_in_table apply to every table parsed. The property itself - parseAML(encode p) '
                   'succeeds and nsOf = namespaceOf p for every program - is NOT a theorem: it is decided for every generated program by the '
                   'executable specification namespaceOf (ACPI scoping rules written directly) and the differential oracle on the real '
                   'parser after every table load, and it is false today for five program shapes (known findings).',
        level_note='Partial: no whole-parser theorem (parse_encode, flat_decls_partial, call_arity_partial '
                   'are not proved; the lexical round trips are: pkglen/const/name/string_roundtrip). Known findings (reported as KNOWN-FINDING, each with a witness in the deterministic boundary list and '
                   'a Lean counterexample theorem): multi-segment paths through a Device are rejected (D6); ^-prefixed declarations inside '
                   'a Device land one level too low; a call whose argument is an expression gets the wrong arguments; an If without '
                   'object-creating body fails/swallows the next statement; inside a While a nested If/While drops the statements after it. '
                   'About 70% of the generated cases avoid these shapes and must pass the whole oracle. Generator coverage: every named '
                   'kind incl. IndexField/BankField, names from the whole legal alphabet (leading A/Z/_), 1-3 tables through ONE parser with '
                   'the oracle after every load, forward references in later tables, 3-pass resolve chains (no known-free program needing 4 '
                   'passes exists in the subset: absolute names deeper than 2 hit D6). Trusted: Lean kernel (+ propext, Classical.choice, '
                   'Quot.sound), namespaceOf as the reading of the ACPI scoping rules, the generator/encoder twins (cross-checked), the '
                   'harness; three defects found here were repaired in /repo (8-bit MultiNamePath length; prefix+NullName names such as '
                   'Scope(\\) rejected; call operands of expressions inside While unresolvable).',
)
