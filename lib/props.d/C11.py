"""C11 configuration for /verif/check."""
PROP = dict(
        module='kernel', pkg='device/acpi/aml', pkgname='aml', harness=['aml/c11_test.go', 'aml/amlcommon_test.go'],
        n=dict(quick=400, thorough=8000),
        timeout=dict(quick=900, thorough=5400),
        nontrivial=r'^T .*\| ok ',
        rule='TODO', trusted=[], assumptions=[], level_text='TODO', level_note='TODO',
)
