"""C04 configuration for /verif/check."""
PROP = dict(
        module='kernel', pkg='mm/vmm', pkgname='vmm', harness=['vmm/swmmu_test.go', 'vmm/c04_test.go'],
        n=dict(quick=300, thorough=6000),
        nontrivial=r'^(map|unmap|pmap|punmap|region|ident|maptmp|pinit) [^|]*\| 0 ',
        rule='one evaluation = one call of Map / Unmap / Translate / MapTemporary / MapRegion / IdentityMapRegion / '
             'PageDirectoryTable.{Init,Map,Unmap,Activate} on the real code over the software MMU, replayed through the Lean '
             'model (full physical-memory dump, flush list, allocator calls, result compared textually) and judged by the '
             'oracle; distinct = by hash of the trace line; non-trivial = a mutating call that succeeded',
        trusted=['software MMU of the harness (harness/vmm/swmmu_test.go): 4-level walk from the fake CR3 over host pages at a '
                 'fixed address, frame number = host address >> 12; ptePtrFn/nextAddrFn/mapTemporaryFn resolve virtual '
                 'addresses through it',
                 'the hardware walk in the model (Firefly.Vmm.mmu) and the independent one in the oracle (Replay.Vmm.leafOf) '
                 'are what "the MMU would read"'],
        assumptions=['sequential use (boot-time code, single CPU)',
                     'page-table frames handed out by the allocator are RAM, pairwise distinct and not in use',
                     'the active root table is identity-mapped when PageDirectoryTable.Map/Unmap run on an inactive table '
                     '(the kernel dereferences its physical address)',
                     'frame numbers < 2^40 and flags outside bits 12..51 (x86-64 entry format; D13 is a domain boundary)',
                     'pages outside the recursive slot (top-level index 511)'],
        level_text='PLACEHOLDER',
        level_note='PLACEHOLDER',
)
