"""C04 configuration for /verif/check."""
PROP = dict(
        module='kernel', pkg='mm/vmm', pkgname='vmm', harness=['vmm/swmmu_test.go', 'vmm/c04_test.go'],
        n=dict(quick=300, thorough=6000),
        anchors='C04.json', expr_imports=['Firefly.Gen.C04'],
        nontrivial=r'^(map|unmap|pmap|punmap|region|ident|maptmp|pinit) [^|]*\| 0 ',
        rule='one evaluation = one call of Map / Unmap / Translate / MapTemporary / MapRegion / IdentityMapRegion / '
             'PageDirectoryTable.{Init,Map,Unmap,Activate} on the real code over the software MMU, replayed through the Lean '
             'model (full physical-memory dump, flush list, allocator calls, result compared textually) and judged by the '
             'oracle; distinct = by hash of the trace line; non-trivial = a mutating call that succeeded',
        trusted=['software MMU of the harness (harness/vmm/swmmu_test.go): 4-level walk from the fake CR3 over host pages at a '
                 'fixed address, frame number = host address >> 12; ptePtrFn/nextAddrFn/mapTemporaryFn resolve virtual '
                 'addresses through it',
                 'the hardware walk in the model (Firefly.Vmm.mmu) and the independent one in the oracle (Replay.Vmm.leafOf) '
                 'are what "the MMU would read"'],
        assumptions=['sequential use (boot-time code, single CPU)',
                     'page-table frames handed out by the allocator are RAM, pairwise distinct and not in use',
                     'the active root table is identity-mapped when PageDirectoryTable.Map/Unmap run on an inactive table '
                     '(the kernel dereferences its physical address)',
                     'frame numbers < 2^40 and flags outside bits 12..51 (x86-64 entry format; D13 is a domain boundary)',
                     'pages outside the recursive slot (top-level index 511)'],
        level_text='Lean theorems over an executable model of map.go/pdt.go with an explicit physical memory and a hardware MMU walk. '
                   'recursive_window: the entry address walk computes at every level dereferences, through the MMU from CR3, to the right '
                   'word of the right table (also for an inactive table swapped into slot 511). map_refines: for every well-formed state '
                   '(tables form a tree, allocator frames fresh), page outside the recursive slot, frame and flags, Map never faults; on '
                   'success the abstract address space (hwEntry = present leaf entry the hardware reaches) is the old one updated at the '
                   'page to frame<<12|flags, all other pages unchanged, flush list [page]; on allocator failure at any point (after any '
                   'number of new levels) or the zero-frame guard the error is returned and no page changes; every new table is all-zero '
                   'except the path entry; memory outside the tree is untouched; well-formedness is preserved. unmap_full, '
                   'translate_correct / translate_abstract (Translate = hardware walk = abstract entry + offset), history (any list of '
                   'Map/Unmap requests: the final address space is the fold of the abstract updates - most recent successful Map wins, '
                   'unmapped absent, others unchanged, failures change nothing), inactive_leaves_active_bit_identical (PDT.Map on an '
                   'inactive table, every case: every word outside the inactive tree, the swapped/restored entry 511 included, is '
                   'bit-identical; the inactive space changes as map_refines says), inactive_unmap_leaves_active_bit_identical, '
                   'pdt_init_refines, region_pages + region_refines, setframe_needs_40_bits (D13). kernel.Memset / kernel.Memcopy '
                   '(mem_util.go) are inside the model, not assumed: memset_fills (as written - target[0]=value then doubling copy calls '
                   'with a 64-bit index - for every size <= 2^63 exactly the size bytes at addr become value, everything else unchanged, '
                   'ceil(log2 size) iterations; memset_needs_size_le_2_63: beyond that the index wraps and the loop hangs), memcopy_copies, '
                   'clearTable_eq_memset (the model\'s clear-frame step IS Memset(f*4096,0,4096) on the byte view of memory). The model '
                   'is tied to the Go code by regenerated constants (a changed shift or mask breaks the proofs), by regenerated expressions '
                   '(tools/exprgen: walk\'s index / entry-address / next-table arithmetic, SetFlags, ClearFlags, Frame, Frame.Address, '
                   'Page.Address are proved equal to the model\'s terms in Tie/C04.lean, incl. the recurrence E) and by a differential run '
                   'of the real code over a software MMU with a full physical-memory comparison after every call; the property statement '
                   'is also evaluated by an independent oracle on the implementation\'s page tables.',
        level_note='kernel.Memset/Memcopy are modelled as written and verified (Model/MemUtil.lean; Go\'s builtin copy is the primitive) and '
                   'tied to the real functions by a differential run on guarded host buffers (boundary sizes, unaligned, overlapping) with '
                   'oracle clauses memset-fills / memcopy-copies. Proved for the model, all cases: Map (0-3 new levels, failure anywhere), Unmap, Translate, histories, PDT.Map '
                   'and PDT.Unmap on an inactive table. PDT.Init (pdt_init_refines) and the page loops of '
                   'MapRegion/IdentityMapRegion (region_pages + region_refines; the reservation arithmetic is C07). Hypotheses: the '
                   'tables reachable from the root form a tree and the allocator hands out RAM frames < 2^40 that are pairwise distinct '
                   'and outside the tree (Good; holds of the boot state and is preserved by every request), pages outside slot 511. '
                   'Trusted: Lean kernel (+ propext, Classical.choice, Quot.sound), the theorem statements, the software MMU of the '
                   'harness and the hardware walk of the model (x86-64 4-level paging, 4 KiB pages; huge-page bit = stop); differential '
                   'testing is not a proof about the Go code. D13: frames >= 2^40 spill into flag bits (domain boundary).',
)
