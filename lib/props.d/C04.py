"""C04 configuration for /verif/check."""
PROP = dict(
        module='kernel', pkg='mm/vmm', pkgname='vmm', harness=['vmm/swmmu_test.go', 'vmm/c04_test.go'],
        n=dict(quick=300, thorough=6000),
        nontrivial=r'^(map|unmap|pmap|punmap|region|ident|maptmp|pinit) [^|]*\| 0 ',
        rule='one evaluation = one call of Map / Unmap / Translate / MapTemporary / MapRegion / IdentityMapRegion / '
             'PageDirectoryTable.{Init,Map,Unmap,Activate} on the real code over the software MMU, replayed through the Lean '
             'model (full physical-memory dump, flush list, allocator calls, result compared textually) and judged by the '
             'oracle; distinct = by hash of the trace line; non-trivial = a mutating call that succeeded',
        trusted=['software MMU of the harness (harness/vmm/swmmu_test.go): 4-level walk from the fake CR3 over host pages at a '
                 'fixed address, frame number = host address >> 12; ptePtrFn/nextAddrFn/mapTemporaryFn resolve virtual '
                 'addresses through it',
                 'the hardware walk in the model (Firefly.Vmm.mmu) and the independent one in the oracle (Replay.Vmm.leafOf) '
                 'are what "the MMU would read"'],
        assumptions=['sequential use (boot-time code, single CPU)',
                     'page-table frames handed out by the allocator are RAM, pairwise distinct and not in use',
                     'the active root table is identity-mapped when PageDirectoryTable.Map/Unmap run on an inactive table '
                     '(the kernel dereferences its physical address)',
                     'frame numbers < 2^40 and flags outside bits 12..51 (x86-64 entry format; D13 is a domain boundary)',
                     'pages outside the recursive slot (top-level index 511)'],
        level_text='Lean theorems over an executable model of map.go/pdt.go with an explicit physical memory and a hardware MMU walk: '
                   'recursive_window (the entry address walk computes at every level dereferences, through the MMU from CR3, to the right '
                   'word of the right table - the recursive-mapping trick is proved, also for an inactive table swapped into slot 511), '
                   'translate_correct (Translate = the hardware walk, for every address), map_refines_partial / unmap_refines / '
                   'unmap_unmapped (exact post-state: one word changes, hardware view of the page, flush list, no allocation), '
                   'map_new_level_step (any level: the allocated frame is linked Present|RW and exactly that frame is cleared - the Memset '
                   'address resolves to it through the window), map_new_leaf_table (whole Map creating one level: hardware view, new '
                   'table empty except the entry), map_alloc_failure (allocator empty: error and the state is unchanged), '
                   'other_pages_unchanged (frame rule for the hardware walk), inactive_leaves_active_bit_identical_partial, region_pages, '
                   'setframe_needs_40_bits (negative witness D13). The model is tied to the Go code by regenerated constants (a changed '
                   'shift or mask breaks the proofs) and by a differential run of the real code over a software MMU with a full '
                   'physical-memory comparison after every call; the property statement is evaluated by an independent oracle on the '
                   'implementation\'s page tables.',
        level_note='Partial: the whole-operation theorems about Map cover zero or one new table level and allocator failure at the first missing '
                   'level; two/three new levels in one call (only the per-level step is proved), failure after partial allocation, the frame '
                   'rule across new levels, inactive tables that grow, and the induction over whole histories are NOT proved - they are '
                   'carried by the correspondence run (model = code on every generated history, including allocator failure at every '
                   'point and inactive tables) and by the oracle clauses map-exact-entry, others-unchanged, new-level-empty, '
                   'alloc-error-iff, fail-no-translation-change, inactive-leaves-active-identical, region-maps-exact-pages. '
                   'Trusted: Lean kernel (+ propext, Classical.choice, Quot.sound), the theorem statements, the software MMU of the '
                   'harness and the hardware walk of the model (x86-64 4-level paging, 4 KiB pages; huge-page bit = stop), differential '
                   'testing is not a proof about the Go code. Domain: frames < 2^40, flags outside bits 12-51, pages outside slot 511.',
)
