"""C20 configuration for /verif/check."""
PROP = dict(
        module='kbuild', pkg='.', pkgname='main', harness=['kbuild/c20_test.go'],
        n=dict(quick=400, thorough=5000),
        nontrivial=r'^run \S+ \| [1-9]',
        rule='one evaluation = one run of the real Context.FindRedirects on a source tree written to disk (20 runs per tree: '
             'generated trees, the deterministic boundary trees and /repo/kernel), replayed through the Lean model of the '
             'same abstract tree; distinct = by hash of (tree digest, ordered result); non-trivial = at least one redirect found',
        trusted=['go/parser + go/scanner (which comments form the doc group of a declaration, comment text) and '
                 'filepath.Walk (lexical order per directory) are modelled, not verified; checked through the generated trees',
                 'for /repo/kernel the abstract tree is obtained with go/parser (generated trees are known by construction)'],
        assumptions=['every non-test .go file of the tree parses (otherwise kbuild aborts the build: no table at all)',
                     'no symbolic links or unreadable entries in the tree; names within one directory are distinct (file system)'],
        level_text='Lean theorems for every source tree (any depth, any number of files, declarations and doc lines).',
        level_note='Trusted: Lean kernel (+ propext, Classical.choice, Quot.sound), the theorem statements, the harness.',
)
