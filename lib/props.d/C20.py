"""C20 configuration for /verif/check."""
PROP = dict(
        module='kbuild', pkg='.', pkgname='main', harness=['kbuild/c20_test.go'],
        n=dict(quick=400, thorough=5000),
        nontrivial=r'^run \S+ \| [1-9]',
        rule='one evaluation = one run of the real Context.FindRedirects on a source tree written to disk (20 runs per tree: '
             'generated trees, the deterministic boundary trees and /repo/kernel), replayed through the Lean model of the '
             'same abstract tree; distinct = by hash of (tree digest, ordered result); non-trivial = at least one redirect found',
        trusted=['go/parser + go/scanner (which comments form the doc group of a declaration, comment text) and '
                 'filepath.Walk (lexical order per directory) are modelled, not verified; checked through the generated trees',
                 'for /repo/kernel the abstract tree is obtained with go/parser (generated trees are known by construction)'],
        assumptions=['every non-test .go file of the tree parses (otherwise kbuild aborts the build: no table at all)',
                     'no symbolic links or unreadable entries in the tree; names within one directory are distinct (file system)'],
        level_text='Lean theorems for every source tree (any depth, any number of files, declarations and doc comments): '
                   'exactly_once / exactly_once_count / table_length (the table is, as a multiset, exactly one entry per directive '
                   'comment in the doc group of a function declaration of a non-test .go file, under any per-file visiting order), '
                   'nothing_else (membership characterisation), ignored_content (deleting test files, non-.go files, non-function docs, '
                   'free/body comments and non-directive doc lines changes neither entries nor order), deterministic + source_order '
                   '(the ordered table is a function of the tree alone: walk x declaration x doc-comment order; proved from the generated '
                   'go/types fact that no loop on the path to the append ranges over a Go map), listing_order_irrelevant / '
                   'canonical_determines (independent of readdir order), map_order_counterexample (negative witness for the repaired '
                   'defect D12). The model is tied to kbuild/redirects.go by regenerated facts (directive, import-path prefix, loop nest '
                   'with map/non-map kinds) and by a differential run of the real FindRedirects, 20 runs per tree, on generated trees '
                   'written to disk and on /repo/kernel.',
        level_note='Trusted: Lean kernel (+ propext, Classical.choice, Quot.sound), the theorem statements, the harness and its go/ast+go/types '
                   'fact extractor. go/parser (doc-group attachment, comment text), filepath.Walk (sorted per-directory order) and the '
                   'strings/path functions are modelled, not verified: their model is checked only by differential testing on the generated '
                   'trees (boundary list + seeded). Reproducibility is proved for the model; for the Go code it rests on the map-range fact plus '
                   '20 repeated runs per tree. Trees with unparsable non-test .go files (kbuild aborts), symlinks or I/O errors are outside the model.',
)
