PROP = dict(
    module='kernel', pkg='mm/pmm', pkgname='pmm', harness=['pmm/pmm_test.go', 'pmm/c07pmm_test.go'], facts_name='Pmm',
    anchors='Pmm.json', expr_name='PmmExpr', expr_imports=['Firefly.Gen.Pmm'], tie_name='Pmm',
    n=dict(quick=300, thorough=6000),
    nontrivial=r'^(a|balloc|f \d+) \| \d',
    rule='one evaluation = one operation on the real pmm code (boot alloc, init, AllocFrame, FreeFrame, stats) replayed through '
         'the Lean model; distinct = by hash of (op, observation); non-trivial = an allocation that returned a frame or a free',
    trusted=['reserveRegionFn/mapFn are scripted (vmm is covered by C04/C07)', 'multiboot block built by the harness (decoder covered by C10)'],
    assumptions=['memory map sorted, non-overlapping, addr+len < 2^64, fewer than 2^32 frames', 'kernel image page-aligned start, inside one available region'],
    level_text="Lean theorems about the executable pmm model, for every sorted memory map, kernel placement, number of early allocations and history of allocate/free calls: initialisation establishes the invariant with free set = usable frames, AllocFrame/FreeFrame refine remove/add on that set (alloc_refines, free_refines), every frame handed out is wholly inside available RAM, outside the kernel image, not early-allocated and not held (handed_out_only_from_usable, exclusive, conservation). any_map_order: the bitmap allocator's invariant only needs pairwise disjoint pool ranges, so the same holds for a memory map listed in any order. Model tied to the Go code by regenerated constants, 20 tie lemmas over expressions regenerated from the source (tools/exprgen; proved through one arithmetic normal form, so equivalent rewrites of the Go expressions keep the tie) and a differential run of Init/AllocFrame/FreeFrame on generated maps with the property oracle on the implementation's observations.",
    level_note='Trusted: Lean kernel (+ propext, Classical.choice, Quot.sound), theorem statements, harness (differential testing, not a proof about Go), addresses/frames as Nat under the domain hypotheses addr+len < 2^64 and < 2^32 frames, caller contract for FreeFrame (callers free frames they hold), vmm seams (reserveRegionFn/mapFn) scripted.',
)
