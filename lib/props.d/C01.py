PROP = dict(
    module='kernel', pkg='mm/pmm', pkgname='pmm', harness=['pmm/pmm_test.go'], facts_name='Pmm',
    n=dict(quick=300, thorough=6000),
    nontrivial=r'^(a|balloc|f \d+) \| \d',
    rule='one evaluation = one operation on the real pmm code (boot alloc, init, AllocFrame, FreeFrame, stats) replayed through '
         'the Lean model; distinct = by hash of (op, observation); non-trivial = an allocation that returned a frame or a free',
    trusted=['reserveRegionFn/mapFn are scripted (vmm is covered by C04/C07)', 'multiboot block built by the harness (decoder covered by C10)'],
    assumptions=['memory map sorted, non-overlapping, addr+len < 2^64, fewer than 2^32 frames', 'kernel image page-aligned start, inside one available region'],
    level_text="Lean theorems about the executable pmm model: AllocFrame/FreeFrame refine 'remove/add one frame of the free set' under the representation invariant (alloc_refines, free_refines), and for every history the frames handed out come from the initially free set and are never held twice (exclusive, conservation). Model tied to the Go code by regenerated constants and a differential run of Init/AllocFrame/FreeFrame on generated memory maps, with the property oracle evaluated on the implementation's observations.",
    level_note='Trusted: Lean kernel (+ propext, Classical.choice, Quot.sound), theorem statements, harness (differential testing, not proof about Go), Nat arithmetic for addresses (addr+len < 2^64, < 2^32 frames). That initialisation establishes the invariant with free set = usable RAM is proved for the bitmap set-up and shown by the oracle on every generated map; see DESIGN.md C01-C03.',
)
