"""C06 configuration for /verif/check."""
PROP = dict(
        module='kernel', pkg='mm/vmm', pkgname='vmm', harness=['vmm/swmmu_test.go', 'vmm/c04_test.go', 'vmm/c06_test.go'],
        n=dict(quick=300, thorough=6000),
        nontrivial=r'^(pf [^|]*\| 0 |rzf [^|]*\| 0 |(map|maptmp|region|ident|pmap) [^|]*\| 3 )',
        rule='one evaluation = one call of pageFaultHandler / generalProtectionFaultHandler / reserveZeroedFrame / Map / '
             'MapTemporary / MapRegion / IdentityMapRegion / PageDirectoryTable.Map on the real code over the software MMU '
             '(set-up ops fill/poke/alloc included), replayed through the Lean model with a full physical-memory comparison; '
             'distinct = by hash of the trace line; non-trivial = a fault that was recovered, a successful reserveZeroedFrame, '
             'or a mapping refused by the zero-frame guard',
        trusted=['software MMU of the harness (harness/vmm/swmmu_test.go); the faulting virtual page is a host page that the '
                 'harness fills with the bytes of the frame the page translates to before the handler runs (that is the '
                 'MMU\'s job and is the emulation trusted here)',
                 'panics of the real code are observed with recover; kfmt output is discarded'],
        assumptions=['sequential use (fault handlers run with interrupts disabled on one CPU)',
                     'the frame allocator returns frames that are RAM and not in use',
                     'x86-64 4-level paging, 4 KiB pages'],
        level_text='Lean theorems over the executable model of fault_amd64.go / vmm.go / map.go: zero_guard (Map, MapTemporary and the '
                   'region page loops refuse a writable mapping of the zero frame in every state once the guard is armed), '
                   'zero_never_rw_partial (a Map that succeeds changes one word and it is not a writable zero-frame entry), '
                   'otherwise_panics (if pageFaultHandler returns at all, the leaf entry was present, read-only and copy-on-write, '
                   'a frame was available and the temporary mapping was not refused - for every state, address and error code), '
                   'cow_private_copy_partial (symbolic execution of the whole recovered fault: the allocator\'s frame is consumed and holds exactly '
                   'the old frame\'s 512 words, the leaf entry becomes old flags - CoW + Present|RW with that frame, the shared frame and every '
                   'other word of memory except the temporary page\'s entry are unchanged, the temporary page ends unmapped, flushes = '
                   'temp, temp, page), gpf_panics, facts_current. The same clauses are evaluated by the oracle on the real code\'s memory '
                   'after every fault.',
        level_note='Partial: cow_private_copy is proved under the extra hypothesis that the temporary-mapping page\'s tables already exist (true '
                   'after the first MapTemporary); the case where they must be created, and the induction of zero_never_rw over whole '
                   'histories, are NOT proved in Lean; they are carried by the correspondence run (141+ recovered faults per quick run, '
                   'all flag subsets on the leaf, missing/odd upper levels, allocator and temporary-mapping failures at each step, '
                   'several pages sharing the zero frame faulted in random order) and the oracle clauses cow-entry-private-rw, '
                   'cow-copy-equal-contents, cow-shared-frame-untouched, cow-others-untouched, cow-flush, otherwise-panics, '
                   'failure-panics, zero-never-rw, zero-frame-guard. Trusted: Lean kernel (+ propext, Classical.choice, Quot.sound), '
                   'the theorem statements, the harness emulation of the MMU; differential testing is not a proof about the Go code.',
)
