"""C06 configuration for /verif/check."""
PROP = dict(
        module='kernel', pkg='mm/vmm', pkgname='vmm', harness=['vmm/swmmu_test.go', 'vmm/c04_test.go', 'vmm/c06_test.go'],
        n=dict(quick=300, thorough=6000),
        nontrivial=r'^(pf [^|]*\| 0 |rzf [^|]*\| 0 |(map|maptmp|region|ident|pmap) [^|]*\| 3 )',
        rule='one evaluation = one call of pageFaultHandler / generalProtectionFaultHandler / reserveZeroedFrame / Map / '
             'MapTemporary / MapRegion / IdentityMapRegion / PageDirectoryTable.Map on the real code over the software MMU '
             '(set-up ops fill/poke/alloc included), replayed through the Lean model with a full physical-memory comparison; '
             'distinct = by hash of the trace line; non-trivial = a fault that was recovered, a successful reserveZeroedFrame, '
             'or a mapping refused by the zero-frame guard',
        trusted=['software MMU of the harness (harness/vmm/swmmu_test.go); the faulting virtual page is a host page that the '
                 'harness fills with the bytes of the frame the page translates to before the handler runs (that is the '
                 'MMU\'s job and is the emulation trusted here)',
                 'panics of the real code are observed with recover; kfmt output is discarded'],
        assumptions=['sequential use (fault handlers run with interrupts disabled on one CPU)',
                     'the frame allocator returns frames that are RAM and not in use',
                     'x86-64 4-level paging, 4 KiB pages'],
        level_text='Lean theorems over the executable model of fault_amd64.go / vmm.go / map.go. zero_never_rw: for every history of Map, '
                   'MapRegion/IdentityMapRegion page loops, Unmap, MapTemporary and page faults that runs to completion from a state '
                   'satisfying the invariant (well-formed active address space, guard armed, no page maps the zero frame with RW), the '
                   'invariant holds again - the zero frame is never writable; zero_never_rw_inactive: the same for PDT.Map on an '
                   'inactive table; zero_guard: Map, MapTemporary and the region loops refuse the mapping in every state. '
                   'cow_private_copy: the recovered fault in every case (temporary-page tables present or created on the way): the '
                   'page gets old flags - CoW + Present|RW with the allocator\'s frame, which holds exactly the old frame\'s 512 words; '
                   'the shared frame, every other page\'s entry and all memory outside the tables are untouched; the temporary page ends '
                   'unmapped; flushes temp, temp, page; or the handler panics because the allocator ran out. otherwise_panics: if the '
                   'handler returns at all the leaf was present, read-only and CoW, a frame was available and the temporary mapping '
                   'not refused. shared_zero_sequence: n pages sharing the zero frame faulted in any order get pairwise distinct '
                   'all-zero frames and the shared frame stays all-zero. reserve_zeroed_frame (arming the guard establishes the invariants), copyFrame_eq_memcopy + memcopy_copies (the frame copy IS '
                   'kernel.Memcopy as written, which copies exactly size bytes - not an assumption), gpf_panics, cow_present_exact, zero_guard_one_word, '
                   'facts_current. The same clauses are evaluated by the oracle on the real code\'s memory after every fault.',
        level_note='kernel.Memcopy/Memset are modelled as written, verified (memcopy_copies; memset_fills in C04) and tied to the real functions '
                   'by a differential run on guarded host buffers (oracle clause memcopy-copies). Proved for the model in all cases (hypotheses: tables form a tree, allocator frames fresh - Good, which holds at boot and '
                   'is preserved; frames < 2^40, flags outside bits 12-51, pages outside slot 511, fault not on the temporary page). '
                   'reserve_zeroed_frame proves that reserveZeroedFrame establishes these invariants. Trusted: Lean kernel '
                   '(+ propext, Classical.choice, Quot.sound), the theorem statements, the harness emulation of the MMU (the faulting '
                   'page\'s bytes are supplied by the harness); differential testing is not a proof about the Go code.',
)
