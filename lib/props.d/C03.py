PROP = dict(
    module='kernel', pkg='mm/pmm', pkgname='pmm', harness=['pmm/pmm_test.go'], facts_name='Pmm',
    n=dict(quick=300, thorough=6000),
    nontrivial=r'^(a|balloc|f \d+) \| \d',
    rule='one evaluation = one operation on the real pmm code (boot alloc, init, AllocFrame, FreeFrame, stats) replayed through '
         'the Lean model; distinct = by hash of (op, observation); non-trivial = an allocation that returned a frame or a free',
    trusted=['reserveRegionFn/mapFn are scripted (vmm is covered by C04/C07)', 'multiboot block built by the harness (decoder covered by C10)'],
    assumptions=['memory map sorted, non-overlapping, addr+len < 2^64, fewer than 2^32 frames', 'kernel image page-aligned start, inside one available region'],
    level_text='Lean theorems: totals equal the number of free frames in every invariant state (stats), exactly total-reserved allocations succeed then OOM (drain_count), bad frees rejected without change, good frees accepted (bad_free_rejected, good_free_accepted), no index panic (ops_never_crash). Init never crashing / establishing the invariant is decided by the differential run + oracle on generated maps (boundary sizes 1,63,64,65,128,129).',
    level_note='Trusted: Lean kernel (+ 3 standard axioms), statements, harness; init_total is correspondence-only at this commit (named partial).',
)
