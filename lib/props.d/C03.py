PROP = dict(
    module='kernel', pkg='mm/pmm', pkgname='pmm', harness=['pmm/pmm_test.go', 'pmm/c07pmm_test.go'], facts_name='Pmm',
    anchors='Pmm.json', expr_name='PmmExpr', expr_imports=['Firefly.Gen.Pmm'], tie_name='Pmm',
    n=dict(quick=300, thorough=6000),
    nontrivial=r'^(a|balloc|f \d+) \| \d',
    rule='one evaluation = one operation on the real pmm code (boot alloc, init, AllocFrame, FreeFrame, stats) replayed through '
         'the Lean model; distinct = by hash of (op, observation); non-trivial = an allocation that returned a frame or a free',
    trusted=['reserveRegionFn/mapFn are scripted (vmm is covered by C04/C07)', 'multiboot block built by the harness (decoder covered by C10)'],
    assumptions=['memory map sorted, non-overlapping, addr+len < 2^64, fewer than 2^32 frames', 'kernel image page-aligned start, inside one available region'],
    level_text="Lean theorems: init ends in ok or out-of-memory, never a crash, and on ok the free set is exactly the usable frames (init_total_and_exact, via init_spec for every sorted map and kernel placement); totals equal the number of free frames in every reachable state (stats), exactly total-reserved allocations succeed then OOM (drain_count), bad frees rejected without change, good frees accepted (bad_free_rejected, good_free_accepted), no index panic (ops_never_crash). Differential run with boundary region sizes 1,63,64,65,128,129 and the oracle on the implementation's observations.",
    level_note='Trusted: Lean kernel (+ 3 standard axioms), statements, harness; Nat arithmetic under addr+len < 2^64 and < 2^32 frames; the theorem covers the vmm seams succeeding (a failing seam returns that error: exercised by the harness only).',
)
