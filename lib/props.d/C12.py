"""C12 configuration for /verif/check."""
PROP = dict(
        module='kernel', pkg='device/acpi/aml', pkgname='aml', harness=['aml/c12_test.go', 'aml/amlcommon_test.go'],
        n=dict(quick=8000, thorough=150000),
        timeout=dict(quick=900, thorough=5400),
        nontrivial=r'^P .*\| (ok|err) ',
        rule='one evaluation = one ParseAML call of the real parser on one byte string (in a child process, under recover, '
             '64 MiB stack cap, 20 s watchdog; a child that dies is re-run alone to confirm), replayed through the Lean parser '
             'model (a statement-by-statement port of parser.go + obj_tree.go); distinct = by hash of (input, observation); '
             'non-trivial = the parser returned (ok or its parse error) and the whole object pool was dumped and compared',
        trusted=['child-process runner classifies process death (stack overflow / timeout / fatal / memory) from stderr and the watchdog',
                 'error-message formatting (kfmt.Fprintf to the error writer) is not modelled (C15 covers kfmt)',
                 'trees larger than VERIF_AML_ROWS objects are compared by a 64-bit FNV hash of the canonical dump, and their '
                 'well-formedness / slice bounds are checked by the Go twin of the Lean oracle (the twins are cross-checked on every dumped tree)'],
        assumptions=['header.Length equals the length of the byte string presented (C14 validates tables before they reach the parser)',
                     'table length < 2^32 - 1024 (SizeOk; uint32 offset arithmetic of the name decoder cannot wrap)'],
        level_text='proof (partial). Proved in Lean for ALL tables and ALL reader states inside the table: the lexical layer - '
                   'reader_inv (offset<=len and pkgEnd<=len preserved by every reader op and every decoder, none can panic or run out of '
                   'fuel), reads_below_pkgEnd, slices_in_table_partial (slices built by parseString / parseNameString / parseByteList lie '
                   'inside the table), stored_values_partial, total_partial (decoders total on fuel len+1), init_inv, and '
                   'opcode_table_sane (kernel-evaluated over the opcode tables regenerated from the compiled Go code on every run). '
                   'The statements about the whole multi-pass parser - C12.total (never panic / stack overflow / hang, fuel linear in '
                   'the input), slices_in_table for every value stored in the tree, tree_WF after success and after failure, print_total - '
                   'are NOT proved; they are decided per input by the oracle on the real parser and by model-vs-implementation '
                   'correspondence over the deterministic boundary list + the mutational stream.',
        level_note='Partial: only the lexical layer and the table facts are theorems; the parser passes (parseObjectList, parseArg, '
                   'parseFieldElements, connectNamedObjArgs, mergeScopeDirectives, relocateNamedObjects, parseDeferredBlocks, '
                   'resolveMethodCalls, connectNonNamedObjArgs, attachSiblingsAsArgs) are covered by differential testing of a faithful '
                   'executable Lean port (0 mismatches incl. the 3577-object DSDT tree) and by the property oracle on the real code '
                   '(outcome in {ok, parse error}; every stored []byte inside its table; pool links form a well-formed forest with an exact '
                   'free list; PrettyPrint does not panic). Trusted: Lean kernel (+ propext, Classical.choice, Quot.sound), the theorem '
                   'statements, the harness and child-process runner, Go toolchain. Five genuine defects found by this check were repaired '
                   'in /repo (relocation cycle/stack overflow, Connection buffer past the table, attachSiblingsAsArgs corrupting the '
                   'grandparent list on a successful parse, PrettyPrint nil dereference after a failed parse, 8-bit MultiNamePath length).',
)
