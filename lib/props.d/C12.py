"""C12 configuration for /verif/check."""
PROP = dict(
        module='kernel', pkg='device/acpi/aml', pkgname='aml', harness=['aml/c12_test.go', 'aml/amlcommon_test.go'],
        n=dict(quick=3000, thorough=60000),
        timeout=dict(quick=900, thorough=5400),
        nontrivial=r'^P .*\| (ok|err) ',
        rule='one evaluation = one ParseAML call of the real parser on one byte string (in a child process, under recover, '
             '64 MiB stack cap, 20 s watchdog), replayed through the Lean parser model; distinct = by hash of (input, observation); '
             'non-trivial = the parser returned (ok or its parse error) and the tree was dumped',
        trusted=['child-process runner classifies process death (stack overflow / timeout / fatal) from exit status and stderr',
                 'error-message formatting (kfmt.Fprintf to the error writer) is not modelled'],
        assumptions=['header.Length equals the length of the byte string presented (C14 validates tables before they reach the parser)',
                     'table length < 2^32'],
        level_text='partial (work in progress)', level_note='work in progress',
)
