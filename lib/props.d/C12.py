"""C12 configuration for /verif/check."""
PROP = dict(
        module='kernel', pkg='device/acpi/aml', pkgname='aml', harness=['aml/c12_test.go', 'aml/amlcommon_test.go'],
        n=dict(quick=8000, thorough=150000),
        timeout=dict(quick=900, thorough=5400),
        nontrivial=r'^P .*\| (ok|err) ',
        rule='one evaluation = one ParseAML call of the real parser on one byte string (in a child process, under recover, '
             '64 MiB stack cap, 20 s watchdog; a child that dies is re-run alone to confirm), replayed through the Lean parser '
             'model (a statement-by-statement port of parser.go + obj_tree.go); distinct = by hash of (input, observation); '
             'non-trivial = the parser returned (ok or its parse error) and the whole object pool was dumped and compared',
        trusted=['child-process runner classifies process death (stack overflow / timeout / fatal / memory) from stderr and the watchdog',
                 'error-message formatting (kfmt.Fprintf to the error writer) is not modelled (C15 covers kfmt)',
                 'trees larger than VERIF_AML_ROWS objects are compared by a 64-bit FNV hash of the canonical dump, and their '
                 'well-formedness / slice bounds are checked by the Go twin of the Lean oracle (the twins are cross-checked on every dumped tree)'],
        assumptions=['header.Length equals the length of the byte string presented (C14 validates tables before they reach the parser)',
                     'table length < 2^32 - 1024 (SizeOk; uint32 offset arithmetic of the name decoder cannot wrap)'],
        level_text='proof (partial). Proved in Lean for ALL tables: (1) the WHOLE multi-pass parser keeps every stored slice inside the '
                   'table - slices_in_table: whenever parseAML returns (success or parse error), from any pool whose values lie inside '
                   'the table, every []byte value in the resulting pool and the reader window lie inside the table (partial '
                   'correctness; any fuel; staged as first_pass_slices_in_table, tree_passes_slices_in_table, '
                   'deferred_and_calls_slices_in_table); (2) the lexical layer completely - reader_inv, reads_below_pkgEnd, '
                   'lex_slices_in_table, stored_values, total_partial (decoders never panic / run out of fuel, fuel len+1), init_inv; '
                   '(3) opcode_table_sane over the opcode tables regenerated from the compiled Go code on every run; (4) totality and '
                   'well-formedness of the FIRST PASS - first_pass_total / first_pass_WF: for every table below 2^32-2^28 bytes parsed '
                   'into ANY C13.WF pool (freed slots allowed and reused: second and later tables) with fuel >= 13*len+13 (fuelFor is), init + '
                   'scopeEnter(0) + parseObjectList and everything they call never end in .panic or .outOfFuel, and in the state '
                   'they return (ok or failed) the pool satisfies C13.WF, every live opcode-table index is in range and '
                   'the scope stack holds live slots (first_pass_is_prefix: parseAML = firstPass >>= afterFirstPass); (5) panic-freedom and '
                   'well-formedness of the tree passes that do not free objects - connect_named_no_panic_WF (connectNamedObjArgs + '
                   'attachSiblingsAsArgs), relocate_no_panic_WF, connect_non_named_no_panic_WF, resolve_calls_no_panic_WF (under the '
                   'hypothesis CallShape: unresolved name-or-call objects hold a []byte): from any C13.WF pool they never end in .panic '
                   '(every ObjectAt dereference, opcode-table access and detach/append contract is discharged; acyclicity from WF.rank) and '
                   'the pool they return (ok or failed) is C13.WF with the same live slots; their fuel bound is not proved; (6) the resolve loop - '
                   'merge_no_panic_WF (mergeScopeDirectives: moves the contents of every resolvable Scope directive and FREES the directive while the '
                   'walk holds saved sibling indices) and resolve_loop_no_panic_WF (resolveLoopPasses = merge + relocate until stable): under the '
                   'hypothesis MergeInv (C13.WF, root is a parentless scope block, every pending Scope directive is unnamed and has exactly a childless '
                   'name-path object holding a []byte and a scope block) they never end in .panic and keep MergeInv; proved with find_avoid (Find never '
                   'descends through an object whose name starts with a zero byte, so a merge target is never inside the directive it empties) and a '
                   'ghost context (everything a recursive call frees or moves lies inside the subtree it visits, so saved siblings stay live); '
                   '(7) init_resets_state ties Parser.init of a used Parser to the model (regenerated from the compiled code); (8) print_total - the '
                   'PrettyPrint walk (model of toString panic sites, cross-checked against the real PrettyPrint on every input) over ANY C13.WF pool '
                   'with correctly typed values returns normally within (size+2)^2 frames; (9) shape_checks_sound - the hypotheses MergeInv and CallShape '
                   'are evaluated by the replay oracle on the model run of EVERY input (clause shape-hypothesis) and the executable checks imply them; '
                   'tree_passes_no_panic_WF composes connectNamedObjArgs and the resolve loop as ParseAML runs them. '
                   '(10) deferred_block_no_panic_WF: parseDeferred(obj) - the strict re-parse (parseModeAllBlocks) of ONE deferred block with everything it calls '
                   '(parseObjectArgs, parseArgs, parseArg, parseStrictTermArg, parseTarget, parseNextObject, parseNamePathOrMethodCall with the lookup, the method-call '
                   'conversion, ArgAt(target,1).value.(uint64) and the argument loop, parseFieldElements) never ends in .panic and keeps C13.WF after success and failure; '
                   'hypotheses (evaluated by the oracle on the model state in front of EVERY parseDeferred of every input, deferred_block_checks_sound): well-formed state, '
                   'no Method on the scope stack, every Method has its flags or is unnamed and encloses neither the root nor the block, the block object attached under a non-Method. '
                   '(11) deferred_block_total: the same parseDeferred(obj) with fuel >= 16*len+15 (fuelFor is) RETURNS - no .panic and no .outOfFuel: one block terminates, recursion at most 16 frames per table byte. '
                   '(12) parse_prefix_no_panic_WF: the COMPOSITION of (4)/(5)/(9): ParseAML up to and excluding parseDeferredBlocks (init; first pass; connectNamedObjArgs; resolve loop; '
                   'parseAML = parsePrefix >>= afterPrefix) never ends in .panic, leaves C13.WF after success and failure and hands MergeInv to parseDeferredBlocks, with MergeInv DERIVED '
                   'from the first pass by theorem (a second reading of the first-pass functions with slot frames that tracks every Scope object until its name and its block are attached) - '
                   'only table/pool-level hypotheses remain: len + 2^28 <= 2^32, a well-formed pool with the size budget whose root is a parentless scope block, whose freed slots are nameless '
                   '(newObject keeps the name of a reused slot) and that holds no Scope object with this table\'s handle; these are decidable (prefix_pool_checks_sound) and the driver counts on how many '
                   'replayed tables they hold (statistics prefix_pool_hyp_holds / prefix_pool_hyp_fails: all of them in every run so far); the first-pass part is total with fuel >= 13*len+13; '
                   'the per-input MergeInv check of shapeAudit keeps running as a cross-check. '
                   'NOT proved: the walk parseDeferredBlocks over all blocks (that the hypotheses of one block hold again for the next), '
                   'that the first pass establishes the other shape hypotheses (CallShape, methods-have-flags, the block facts) of the later passes, that any tree pass stays within its fuel, the composition into parseAML (C12.total), '
                   'tree_WF after success/failure of the whole ParseAML - these are decided per input by the oracle on the real parser and by '
                   'model-vs-implementation correspondence over the boundary list and the mutational stream.',
        level_note='Partial: totality (no panic, no stack overflow, no hang) and tree well-formedness are theorems for the first pass (first_pass_total, first_pass_WF; any well-formed pool); every tree pass is proved panic-free and WF-preserving (some under explicit shape hypotheses checked per input, none with its fuel bound), the whole prefix of ParseAML in front of the deferred blocks is composed with MergeInv derived from the first pass (parse_prefix_no_panic_WF: only pool-level hypotheses), the strict pass per deferred block (deferred_block_no_panic_WF for any fuel, deferred_block_total with fuel >= 16*len+15); the walk over all deferred blocks and the composition into parseAML are NOT theorems; '
                   'they need the object-tree invariant of C13 with state-dependent operation contracts threaded through ~25 call sites '
                   'and are covered by differential testing of a faithful executable Lean port (0 mismatches on 10^5-10^6 inputs incl. '
                   'the 3577-object DSDT tree) plus the property oracle on the real code, decided on the implementation\'s observation alone: '
                   'outcome in {ok, parse error} (clauses never-panics / never-overflows-stack / terminates, from recover and the runner\'s watchdogs); '
                   'objects allocated by one table <= 4*len+16 (clause work-bounded; measured maximum on the unchanged tree is 2 per byte; '
                   'first_pass_total proves 16 per byte for the first pass); stored []byte '
                   'inside its table; pool links form a well-formed forest with an exact free list; PrettyPrint does not panic. '
                   'slices_in_table is a partial-correctness theorem about the model (runs ending in .panic/.outOfFuel return no tree) '
                   'with hypothesis SizeOk (len+1024 <= 2^32) and an input pool holding only in-table values (true of the default scopes; '
                   'multi-table loads are outside the theorem). Functions covered by slices_in_table: every function of '
                   'Model/AmlParser.lean (parseObjectList ... connectNonNamedObjArgs, attachSiblingsAsArgs, parseFieldElements, '
                   'parseStrictTermArg, parseDeferredBlocks, resolveMethodCalls). Trusted: Lean kernel (+ propext, Classical.choice, '
                   'Quot.sound), the theorem statements, the harness and child-process runner, Go toolchain. Genuine defects found by '
                   'this check and repaired in /repo: relocation cycle/stack overflow, Connection buffer past the table, '
                   'attachSiblingsAsArgs corrupting the grandparent list on a successful parse, PrettyPrint nil dereference after a failed '
                   'parse, 8-bit MultiNamePath length, ByteList length underflow behind an overrun package end (bytes parsed twice).',
)
