"""C18 configuration for /verif/check."""
PROP = dict(
        module='kernel', pkg='device/tty', pkgname='tty', harness=['tty/c17_test.go', 'tty/c18_test.go'],
        extra_overlay={'kernel/device/video/console/zz_verif_c18_export.go': 'console/c18_export.go'},
        n=dict(quick=400, thorough=8000),
        extra_runs=[dict(module='kernel', pkg='hal', pkgname='hal', harness=['hal/c18hal_test.go'],
                         extra_overlay={'kernel/device/video/console/zz_verif_c18_export.go': 'console/c18_export.go',
                                        'kernel/device/video/console/zz_verif_c19_export.go': 'console/c19_export.go',
                                        'kernel/multiboot/zz_verif_c19_export.go': 'multiboot/c19_export.go',
                                        'kernel/device/tty/zz_verif_c18_export.go': 'tty/c18_export.go'},
                         test='TestVerifC18Hal', n=dict(quick=20, thorough=300))],
        nontrivial=r'^W [0-9a-f]+ \| \d+ \d+ \d+ 1 ',
        rule='one evaluation = one AttachTo / Write / SetCursorPosition / SetState call on the real VT attached to a mock '
             'grid console, the real VgaTextConsole or the real VesaFbConsole (host-memory framebuffer), followed by a '
             'read-back of the screen; replayed through the Lean VT model + abstract console and the reference terminal; '
             'distinct = by hash of (op, observation); non-trivial = a non-empty Write while the terminal is Active',
        trusted=['export shim harness/console/c18_export.go (builds the shipped consoles on a host buffer; offsetY set directly, '
                 'SetLogo itself is C19)',
                 'pixel bytes of a colour index are taken from the console\'s own packColor (verified by C19)',
                 'screen contents are compared through a 64-bit FNV-style hash of the canonical text area'],
        assumptions=['the terminal is attached once, while Inactive (NewVT state), to a console with at least one row and column',
                     'glyph 0x20 of the font in use is blank (generated fact for every shipped font; synthetic fonts are built so)',
                     'default colours of the shipped consoles (7 on 0)'],
        level_text='Lean theorems over the VT model and an abstract cell-grid console for every geometry, scrollback, tab width and '
                   'history: active_sync, inactive_untouched, activate_redraws, no_outside_draw; composed with the C19 models of the shipped drivers: shipped_consoles_text (text mode, full) and shipped_consoles_pix (framebuffer, every depth/pitch/font/logo offset/height: the Scroll+Fill pair of the terminal re-establishes the display relation on geometries with left-over pixel rows); tied to vt.go and to the shipped '
                   'VgaTextConsole / VesaFbConsole by a differential run that reads the real framebuffer back after every call.',
        level_note='Trusted: Lean kernel (+ propext, Classical.choice, Quot.sound), the theorem statements, the abstract console '
                   '(Spec/Term.lean Console: write/scrollUp/fill with the obvious meaning; the C19 driver models refine it '
                   '(refines_grid) and the composition is proved for both shipped consoles), the harness and export shim.',
)
