"""C13 configuration for /verif/check."""
PROP = dict(
        module='kernel', pkg='device/acpi/aml', pkgname='aml', harness=['aml/c13_test.go'],
        n=dict(quick=300, thorough=6000),
        nontrivial=r'^(L \d+ \S+ \| \d{1,9}$|A |AA |D |F |N )',
        rule='one evaluation = one ObjectTree operation (newObject/append/appendAfter/detach/free) or one query '
             '(Find/NumArgs/ArgAt/ClosestNamedAncestor/ObjectAt) on the real code, replayed through the Lean model; '
             'distinct = by hash of (op, observation); non-trivial = a mutating op or a lookup that found a node',
        trusted=['harness bookkeeping only chooses operations; contracts are re-decided by the Lean driver on the dumped pool'],
        assumptions=['sequential use of one ObjectTree', 'pool length < 2^32-1 (uint32 indices)'],
        level_text='TODO', level_note='TODO',
)
