"""C13 configuration for /verif/check."""
PROP = dict(
        module='kernel', pkg='device/acpi/aml', pkgname='aml', harness=['aml/c13_test.go'],
        n=dict(quick=300, thorough=6000),
        nontrivial=r'^(L \d+ \S+ \| \d{1,9}$|A |AA |D |F |N )',
        rule='one evaluation = one ObjectTree operation (newObject/append/appendAfter/detach/free) or one query '
             '(Find/NumArgs/ArgAt/ClosestNamedAncestor/ObjectAt) on the real code, replayed through the Lean model; '
             'distinct = by hash of (op, observation); non-trivial = a mutating op or a lookup that found a node',
        trusted=['harness bookkeeping only chooses operations; contracts are re-decided by the Lean driver on the dumped pool'],
        assumptions=['sequential use of one ObjectTree', 'pool length < 2^32-1 (uint32 indices)'],
        level_text='Lean theorems over the index-linked pool model of obj_tree.go, for every pool and every byte string: find_total / '
                   'findRelative_total (Find never panics or loops on a well-formed pool, for ANY expression and live scope, and never '
                   'returns a freed slot), numArgs_correct / argAt_correct (= the abstract child list), closestNamedAncestor_total, '
                   'no_freed_reachable (links of live objects reach only live objects), child_lists_agree (k in kids(p) iff live k and parent(k)=p, both directions), '
                   'forest_parent_is_link, '
                   'free_slots_reused_first, wfCheck_sound (the oracle\'s executable well-formedness check implies WF), '
                   'ops_preserve_WF_partial + history_partial (newObject only), find_correct_partial (root and caret clauses). The model is tied to the Go code by regenerated constants '
                   'and a differential run of every ObjectTree operation and query with a full pool dump after each operation; the oracle '
                   'runs on the implementation\'s dump: WF after every in-contract op, the op\'s effect on the abstract forest, freed '
                   'slots reused before growth, and each lookup result = the four-clause ACPI resolver on the abstracted forest.',
        level_note='PARTIAL. Proved for all inputs: totality/no-crash of all lookups on well-formed pools, free-list reuse, no freed '
                   'object reachable, child lists = parent links in both directions, soundness of the oracle\'s WF checker, WF preservation of newObject. NOT proved, decided by the '
                   'oracle on generated histories only: WF preservation and abstract effect of append/appendAfter/detach/free '
                   '(ops_preserve_WF, history) and the segment clauses of find_correct (downward descent, scope-then-enclosing-scopes search; '
                   'the root and caret clauses are proved). Trusted: Lean kernel '
                   '(+ propext, Classical.choice, Quot.sound), the statements in Props/C13.lean and Spec/C13.lean (WF, resolve, encode), '
                   'the harness and replay driver (correspondence is differential testing, not a proof about the Go code).',
)
