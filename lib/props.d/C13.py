"""C13 configuration for /verif/check."""
PROP = dict(
        module='kernel', pkg='device/acpi/aml', pkgname='aml', harness=['aml/c13_test.go', 'aml/c13_parse_test.go'],
        n=dict(quick=300, thorough=6000),
        nontrivial=r'^(L \d+ \S+ \| \d{1,9}$|A |AA |D |F |N |PT \S+ \S+ \| ok )',
        rule='one evaluation = one ObjectTree operation (newObject/append/appendAfter/detach/free) or one query '
             '(Find/NumArgs/ArgAt/ClosestNamedAncestor/ObjectAt) on the real code, replayed through the Lean model, or one table '
             'loaded by the real ParseAML (shipped corpus + generated tables, 1-3 per parser; the parser is a client of the tree ops and is '
             'not replayed: the dumped pool is judged by the WF oracle and by lookups of every declared name); '
             'distinct = by hash of (op, observation); non-trivial = a mutating op, a table that parsed, or a lookup that found a node',
        trusted=['harness bookkeeping only chooses operations; contracts are re-decided by the Lean driver on the dumped pool'],
        assumptions=['sequential use of one ObjectTree', 'pool length < 2^32-1 (uint32 indices)'],
        level_text='Lean theorems over the index-linked pool model of obj_tree.go, for every pool, history and byte string: '
                   'ops_preserve_WF + history (every contract-respecting sequence of newObject/append/appendAfter/detach/free from a '
                   'well-formed pool runs without panic and ends well-formed), per-op *_preserves_WF (exact link changes) and *_effect '
                   '(exact change of the abstract forest: child list gains/loses/inserts one node, nothing else moves), '
                   'child_lists_agree (k in kids(p) iff live k and parent(k)=p), no_freed_reachable, free_slots_reused_first, '
                   'find_total (no panic / no loop for ANY byte string), find_correct (Find(encode p) = the four-clause ACPI resolver on '
                   'the abstracted forest for every valid path: root prefix, carets, single-segment scope-then-enclosing-scopes search, '
                   'multi-segment downward only; every segment count), numArgs_correct, argAt_correct, closestNamedAncestor_total, '
                   'wfCheck_sound + decode_sound (the replay oracle\'s checks are instances of WF / find_correct). The model is tied to '
                   'the Go code by regenerated constants and a differential run of every ObjectTree operation and query with a full pool '
                   'dump after each operation; the oracle runs on the implementation\'s dump. Histories produced by clients of the tree ops are '
                   'covered by a second harness part: tables fed through the real ParseAML, pool dumped after every table, WF oracle + '
                   'lookups of every declared name from several scopes; this includes rejected tables (deferred blocks whose TermArg operands are '
                   'cut at every operand boundary: the tree outlives the rejected table) and a watchdog that turns a parser that does not '
                   'return into the observation hang. The op histories repeat the identical simple-name lookup around an append / '
                   'insert-after of a same-named object (shadowing, positive and negative variant).',
        level_note='All clauses of the property are proved for the model (no _partial theorem left). Not proved: the specification of '
                   'ClosestNamedAncestor (only its totality; its result is checked by the oracle), and completeness of wfCheck (only '
                   'soundness). Torn pool states after a mid-operation Go panic (contract violations only) are not modelled. '
                   'Trusted: Lean kernel (+ propext, Classical.choice, Quot.sound), the statements in Props/C13.lean and Spec/C13.lean '
                   '(WF, resolve, encode, the caller contracts), the harness and replay driver (correspondence model<->Go code is '
                   'differential testing on generated inputs, not a proof about the Go code).',
)
