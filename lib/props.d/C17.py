"""C17 configuration for /verif/check."""
PROP = dict(
        module='kernel', pkg='device/tty', pkgname='tty', harness=['tty/c17_test.go'],
        n=dict(quick=800, thorough=25000),
        nontrivial=r'^W \d [0-9a-f]+ \| ok',
        rule='one evaluation = one NewVT / AttachTo / Write / SetCursorPosition / SetState call on the real VT '
             '(attached to a recording mock console), replayed through the Lean VT model and the reference terminal; '
             'distinct = by hash of (op, observation); non-trivial = a Write of at least one byte that returned',
        trusted=['mock console of the harness (records calls; the shipped consoles are C19)',
                 'hash-only dumps of large buffers compare a 64-bit FNV-style hash of the whole data buffer '
                 '(every case ends with a full dump; buffers up to 1536 bytes are always dumped in full)'],
        assumptions=['one terminal is used from one goroutine at a time',
                     'a terminal is attached once, to a console with at least one row and one column, and '
                     'width*(height+scrollback)*3 < 2^32 (the theorems\' explicit hypothesis; model and code are '
                     'still compared outside it)'],
        level_text='Lean theorems for every geometry w,h >= 1, scrollback, tab width (with w*(h+sb)*3 < 2^32) and every '
                   'history of bytes, cursor moves and state changes: the VT model refines the reference terminal of the '
                   'property text (refines), the cursor stays inside the viewport, no slice index is out of range '
                   '(in_bounds), lines below the viewport stay blank; the model is tied to vt.go by a differential run '
                   'that compares cursor, viewport, console calls and the whole data buffer after every call.',
        level_note='Trusted: Lean kernel (+ propext, Classical.choice, Quot.sound), the theorem statements and the '
                   'reference terminal in Spec/Term.lean, the harness (correspondence is differential testing on '
                   'generated inputs, not a proof about the Go code), the mock console.',
)
