"""C16 configuration for /verif/check."""
PROP = dict(
        module='kernel', pkg='hal', pkgname='hal', harness=['hal/c16_test.go'],
        extra_overlay={
            'kernel/kfmt/zz_verif_c16_export.go': 'kfmt/c16_export.go',
            'kernel/device/zz_verif_c16_export.go': 'device/c16_export.go',
            'kernel/device/tty/zz_verif_c18_export.go': 'tty/c18_export.go',
        },
        n=dict(quick=300, thorough=6000),
        nontrivial=r'^(detect [1-9]|w \d [0-9a-f]|rd [1-9]\d* \| [1-9]|pw [0-9a-f])',
        rule='one evaluation = one operation on the real code (a log write through kfmt, a ringBuffer.Read, a SetOutputSink, '
             'a PrefixWriter.Write, or one whole hal.DetectHardware over 0-40 drivers (mocks and the shipped tty.VT) registered through device.RegisterDriver, or the end-of-case dump of what every '
             'mock TTY received), replayed through the Lean model; distinct = by hash of (op, observation); non-trivial = a '
             'non-empty write, a read that returned bytes, or a DetectHardware with at least one driver',
        trusted=['sort.Sort enters the model as a parameter assumed to return an order-sorted permutation (the oracle checks it on every case)',
                 'io.Copy is modelled as Read-until-EOF with a 32 KiB buffer writing every chunk (theorems hold for every positive buffer size)',
                 'kfmt.Fprintf of the three fixed hal format strings is modelled by its specified output, one Write per byte (C15 covers the formatter)',
                 'mock TTYs in most cases; in the others the shipped tty.VT behind a call-recording wrapper over a grid-recording mock console, '
                 'judged against the reference terminal of C17 (Spec/Term.lean) fed with the expected byte stream; the shipped consoles are C18/C19; export shims harness/kfmt/c16_export.go, harness/device/c16_export.go'],
        assumptions=['sequential use (device bring-up is single-threaded)',
                     'sinks accept every Write completely, as the ring buffer and the TTYs do',
                     'consoles without FontSetter/LogoSetter (font/logo selection is outside the property)'],
        level_text='Lean theorems (ring_is_last_N, ring_writes_then_drain, prefix_lines, probe_order, failed_never_active, first_wins, '
                   'linked_both_orders, attached_once, log_exactly_once, link_moment, terminal_shows_log; generic in the compiled power-of-two ringBufferSize) hold for every driver set, registration order, failing subset and every amount/chunking of log '
                   'output; the model is tied to the Go code by regenerated constants (ringBufferSize, DetectOrder values) and a '
                   'differential run of the real hal/kfmt code against the model with the property oracle on the real observations.',
        level_note='Trusted: Lean kernel (+ propext, Classical.choice, Quot.sound), the theorem statements, the harness and mock drivers '
                   '(correspondence is differential testing on generated inputs, not a proof about the Go code); sort.Sort, io.Copy and '
                   'the formatter are modelled by their specifications.',
)
